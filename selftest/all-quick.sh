#!/usr/bin/env bash
# Pre-commit habit: every check, quick tier, at a few seeds, on the unchanged tree; any exit != 0 is shown.
#   selftest/all-quick.sh [seeds...]   (default: 1 2 3; Miri layer only at the first seed)
cd "$(dirname "$0")/.."
SEEDS="${*:-1 2 3}"; first=1; bad=0
# the harness' own unit tests (path renderer/parser round trip, query shrinker, known-finding predicates)
(cd sim && RUSTFLAGS="--cfg jsonpath_rust_verif" cargo test --release --offline --target-dir ../target/main 2>&1 | grep -E "^test result" ) || bad=1
for s in $SEEDS; do
  for id in C09 C12 C15; do
    if [ "$id" = C12 ] && [ "$first" != 1 ]; then export VERIF_MIRI=0; else unset VERIF_MIRI; fi
    out=$(VERIF_SEED=$s ./check $id --tier quick 2>&1); rc=$?
    echo "seed $s $id exit=$rc $(printf '%s\n' "$out" | grep -E " done:" | sed -E 's/.*(violations=[0-9]+).*(wall=[0-9.]+s).*/\1 \2/')"
    if [ $rc != 0 ]; then bad=1; printf '%s\n' "$out" | grep -E "violation|VIOLATION|harness" | head -5; fi
  done
  first=0
done
exit $bad
