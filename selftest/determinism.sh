#!/usr/bin/env bash
# Proves that every check is a pure function of VERIF_SEED: runs each check at several seeds twice,
# at different worker counts (and therefore different process/thread placement), and compares what
# the two runs covered. Not registered in MANIFEST; run by hand after a change to the simulator.
#   selftest/determinism.sh [seeds...]      (default: 1 2 3 4 5 6)
set -u
cd "$(dirname "$0")/.."
SEEDS="${*:-1 2 3 4 5 6}"
fail=0
sig() { # stable part of an evidence file
  python3 - "$1" <<'PY'
import json,sys,hashlib
e=json.load(open(sys.argv[1])); c=e['coverage']
for k in ['runs_per_hour','replay','miri_layer','send_sync_probe_crate']: c.pop(k,None)
if 'probes' in c: c['probes'].pop('doc_rebuilt_at_same_address',None)   # allocator-dependent, reported only
if 'faults' in c and 'document_dropped_and_rebuilt' in c['faults']: c['faults']['document_dropped_and_rebuilt'].pop('at_the_same_address',None)
e.pop('wall_s',None)
print(hashlib.sha256(json.dumps(e,sort_keys=True).encode()).hexdigest()[:16])
PY
}
for s in $SEEDS; do
  for id in C09 C12 C15; do
    a=$(VERIF_SEED=$s VERIF_WORKERS=16 VERIF_MIRI=0 VERIF_C09_RUNS=200000 VERIF_C12_RUNS=2000 VERIF_C12_SWEEP=4000 VERIF_C15_FAMILIES=1500 VERIF_C15_RUNS=500 ./check $id --tier quick >/dev/null 2>&1; echo "$? $(sig evidence/$id.json)")
    b=$(VERIF_SEED=$s VERIF_WORKERS=5  VERIF_MIRI=0 VERIF_C09_RUNS=200000 VERIF_C12_RUNS=2000 VERIF_C12_SWEEP=4000 VERIF_C15_FAMILIES=1500 VERIF_C15_RUNS=500 ./check $id --tier quick >/dev/null 2>&1; echo "$? $(sig evidence/$id.json)")
    if [ "$a" = "$b" ]; then echo "seed $s $id identical ($a)"; else echo "seed $s $id DIFFERS: 16 workers -> $a ; 5 workers -> $b"; fail=1; fi
  done
done
exit $fail
