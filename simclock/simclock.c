/* Clock seam for the simulator (LD_PRELOAD): every clock the process reads through libc
 * (std::time::Instant and SystemTime use clock_gettime) is the real clock plus an offset the
 * simulator controls. The unchanged library reads no clock at all; a changed tree that starts to
 * (deadlines, time-based cache expiry, sampling) then sees clock jumps injected at schedule points.
 * Only run processes are started with this shim; the cold oracle processes are not. */
#define _GNU_SOURCE
#include <dlfcn.h>
#include <time.h>
#include <sys/time.h>
#include <stdatomic.h>

static _Atomic long long offset_ns = 0;
static _Atomic unsigned long long reads = 0;

void sim_clock_advance(long long ns) { atomic_fetch_add(&offset_ns, ns); }
unsigned long long sim_clock_reads(void) { return atomic_load(&reads); }

static int (*real_clock_gettime)(clockid_t, struct timespec *) = 0;

int clock_gettime(clockid_t id, struct timespec *ts) {
    if (!real_clock_gettime) real_clock_gettime = (int (*)(clockid_t, struct timespec *))dlsym(RTLD_NEXT, "clock_gettime");
    int r = real_clock_gettime(id, ts);
    if (r == 0 && (id == CLOCK_MONOTONIC || id == CLOCK_REALTIME || id == CLOCK_MONOTONIC_RAW || id == CLOCK_BOOTTIME || id == CLOCK_MONOTONIC_COARSE || id == CLOCK_REALTIME_COARSE)) {
        atomic_fetch_add(&reads, 1);
        long long off = atomic_load(&offset_ns);
        long long ns = (long long)ts->tv_nsec + off % 1000000000LL;
        ts->tv_sec += off / 1000000000LL + ns / 1000000000LL;
        ts->tv_nsec = ns % 1000000000LL;
    }
    return r;
}

int gettimeofday(struct timeval *tv, void *tz) {
    struct timespec ts;
    (void)tz;
    if (clock_gettime(CLOCK_REALTIME, &ts) != 0) return -1;
    if (tv) { tv->tv_sec = ts.tv_sec; tv->tv_usec = ts.tv_nsec / 1000; }
    return 0;
}
