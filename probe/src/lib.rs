//! If this crate does not compile while jsonpath-rust itself does, a type that callers share
//! between threads (C12: "one parsed query and one document are used from many threads at the
//! same time") has stopped being Send + Sync.
use jsonpath_rust::parser::errors::JsonPathError;
use jsonpath_rust::parser::model::{Comparable, Comparison, Filter, FilterAtom, FnArg, JpQuery, Literal, Segment, Selector, SingularQuery, Test, TestFunction};
use jsonpath_rust::query::QueryRef;
use serde_json::Value;

fn send_sync<T: Send + Sync>() {}

pub fn probe() {
    send_sync::<JpQuery>();
    send_sync::<Segment>();
    send_sync::<Selector>();
    send_sync::<Filter>();
    send_sync::<FilterAtom>();
    send_sync::<Comparison>();
    send_sync::<Comparable>();
    send_sync::<SingularQuery>();
    send_sync::<Literal>();
    send_sync::<Test>();
    send_sync::<TestFunction>();
    send_sync::<FnArg>();
    send_sync::<JsonPathError>();
    send_sync::<QueryRef<'static, Value>>();
    send_sync::<Result<Vec<QueryRef<'static, Value>>, JsonPathError>>();
}
