//! The checker's own notion of a location and of a Normalized Path (RFC 9535 §2.7):
//! renderer, strict parser (its inverse), and walkers over serde_json::Value that never go
//! through the library under test.
use serde::{Deserialize, Serialize};
use serde_json::Value;

#[derive(Clone, Debug, PartialEq, Eq, Hash, Serialize, Deserialize)]
pub enum Step {
    Name(String),
    Idx(usize),
    /// a canonical index too large for `usize` (its decimal digits): a location no document has
    Big(String),
}
pub type Loc = Vec<Step>;

pub fn render(loc: &[Step]) -> String {
    let mut s = String::from("$");
    for st in loc {
        match st {
            Step::Idx(i) => s.push_str(&format!("[{}]", i)),
            Step::Big(d) => s.push_str(&format!("[{}]", d)),
            Step::Name(n) => {
                s.push_str("['");
                for c in n.chars() {
                    match c {
                        '\'' => s.push_str("\\'"),
                        '\\' => s.push_str("\\\\"),
                        '\u{8}' => s.push_str("\\b"),
                        '\u{c}' => s.push_str("\\f"),
                        '\n' => s.push_str("\\n"),
                        '\r' => s.push_str("\\r"),
                        '\t' => s.push_str("\\t"),
                        c if (c as u32) < 0x20 => s.push_str(&format!("\\u{:04x}", c as u32)),
                        c => s.push(c),
                    }
                }
                s.push_str("']");
            }
        }
    }
    s
}

/// Strict: accepts exactly the strings `render` can produce.
pub fn parse(path: &str) -> Option<Loc> {
    let cs: Vec<char> = path.chars().collect();
    if cs.first() != Some(&'$') {
        return None;
    }
    let mut i = 1;
    let mut loc = vec![];
    while i < cs.len() {
        if cs[i] != '[' {
            return None;
        }
        i += 1;
        if i >= cs.len() {
            return None;
        }
        if cs[i] == '\'' {
            i += 1;
            let mut name = String::new();
            loop {
                if i >= cs.len() {
                    return None;
                }
                let c = cs[i];
                i += 1;
                match c {
                    '\'' => break,
                    '\\' => {
                        if i >= cs.len() {
                            return None;
                        }
                        let e = cs[i];
                        i += 1;
                        match e {
                            'b' => name.push('\u{8}'),
                            'f' => name.push('\u{c}'),
                            'n' => name.push('\n'),
                            'r' => name.push('\r'),
                            't' => name.push('\t'),
                            '\'' => name.push('\''),
                            '\\' => name.push('\\'),
                            'u' => {
                                if i + 4 > cs.len() {
                                    return None;
                                }
                                let h: String = cs[i..i + 4].iter().collect();
                                i += 4;
                                if h.chars().any(|c| !(c.is_ascii_digit() || ('a'..='f').contains(&c))) {
                                    return None;
                                }
                                let code = u32::from_str_radix(&h, 16).ok()?;
                                // only the controls that have no short form
                                let ok = code < 0x20 && !matches!(code, 0x8 | 0x9 | 0xa | 0xc | 0xd);
                                if !ok {
                                    return None;
                                }
                                name.push(char::from_u32(code)?);
                            }
                            _ => return None,
                        }
                    }
                    c if (c as u32) < 0x20 => return None,
                    c => name.push(c),
                }
            }
            if i >= cs.len() || cs[i] != ']' {
                return None;
            }
            i += 1;
            loc.push(Step::Name(name));
        } else {
            let start = i;
            // a negative index step (`[-1]`, what a query's index selector counts from the end) is judged
            // too: no location has one, so it is carried as a step nothing matches (S122)
            let neg = i < cs.len() && cs[i] == '-';
            if neg {
                i += 1;
            }
            let dstart = i;
            while i < cs.len() && cs[i].is_ascii_digit() {
                i += 1;
            }
            if i == dstart || i >= cs.len() || cs[i] != ']' {
                return None;
            }
            let digits: String = cs[start..i].iter().collect();
            if (i - dstart > 1 && cs[dstart] == '0') || (neg && cs[dstart] == '0') {
                return None;
            }
            i += 1;
            if neg {
                loc.push(Step::Big(digits));
                continue;
            }
            match digits.parse::<usize>() {
                Ok(i) => loc.push(Step::Idx(i)),
                Err(_) => loc.push(Step::Big(digits)),
            }
        }
    }
    Some(loc)
}

pub fn walk<'a>(v: &'a Value, loc: &[Step]) -> Option<&'a Value> {
    let mut cur = v;
    for st in loc {
        cur = match (st, cur) {
            (Step::Name(n), Value::Object(o)) => o.get(n.as_str())?,
            (Step::Idx(i), Value::Array(a)) => a.get(*i)?,
            _ => return None,
        };
    }
    Some(cur)
}

pub fn walk_mut<'a>(v: &'a mut Value, loc: &[Step]) -> Option<&'a mut Value> {
    let mut cur = v;
    for st in loc {
        cur = match (st, cur) {
            (Step::Name(n), Value::Object(o)) => o.get_mut(n.as_str())?,
            (Step::Idx(i), Value::Array(a)) => a.get_mut(*i)?,
            _ => return None,
        };
    }
    Some(cur)
}

/// All locations of a value in document order (parents before children).
pub fn all_locs(v: &Value) -> Vec<Loc> {
    fn rec(v: &Value, cur: &mut Loc, out: &mut Vec<Loc>) {
        out.push(cur.clone());
        match v {
            Value::Array(a) => {
                for (i, x) in a.iter().enumerate() {
                    cur.push(Step::Idx(i));
                    rec(x, cur, out);
                    cur.pop();
                }
            }
            Value::Object(o) => {
                for (k, x) in o {
                    cur.push(Step::Name(k.clone()));
                    rec(x, cur, out);
                    cur.pop();
                }
            }
            _ => {}
        }
    }
    let mut out = vec![];
    rec(v, &mut vec![], &mut out);
    out
}

/// Location of the node with this address inside `root`, by an independent walk.
pub fn loc_of(root: &Value, target: *const Value) -> Option<Loc> {
    fn rec(v: &Value, target: *const Value, cur: &mut Loc) -> bool {
        if std::ptr::eq(v, target) {
            return true;
        }
        match v {
            Value::Array(a) => {
                for (i, x) in a.iter().enumerate() {
                    cur.push(Step::Idx(i));
                    if rec(x, target, cur) {
                        return true;
                    }
                    cur.pop();
                }
            }
            Value::Object(o) => {
                for (k, x) in o {
                    cur.push(Step::Name(k.clone()));
                    if rec(x, target, cur) {
                        return true;
                    }
                    cur.pop();
                }
            }
            _ => {}
        }
        false
    }
    let mut cur = vec![];
    if rec(root, target, &mut cur) {
        Some(cur)
    } else {
        None
    }
}

/// Compact address-free spelling of a location for observations and logs.
pub fn loc_str(loc: &[Step]) -> String {
    if loc.is_empty() {
        return "/".into();
    }
    let mut s = String::new();
    for st in loc {
        match st {
            Step::Idx(i) => s.push_str(&format!("/i:{}", i)),
            Step::Big(d) => s.push_str(&format!("/i:{}", d)),
            Step::Name(n) => {
                s.push_str("/n:");
                for b in n.bytes() {
                    s.push_str(&format!("{:02x}", b));
                }
            }
        }
    }
    s
}

#[cfg(test)]
mod tests {
    use super::*;
    #[test]
    fn roundtrip() {
        let names = crate::gen::NAMES_ADV;
        for a in names {
            for b in names {
                let loc = vec![Step::Name(a.to_string()), Step::Idx(3), Step::Name(b.to_string())];
                let p = render(&loc);
                assert_eq!(parse(&p), Some(loc), "{}", p);
            }
        }
        let big = "$['a'][18446744073709551616]";
        assert_eq!(parse(big).map(|l| render(&l)), Some(big.to_string()));
        assert_eq!(parse("$['a'"), None);
        assert_eq!(parse("$[01]"), None);
        // a negative index step is judged as a step no location has; `-0` and `-01` are not index steps
        assert_eq!(parse("$[-1]"), Some(vec![Step::Big("-1".into())]));
        assert_eq!(parse("$['a'][-12]").map(|l| render(&l)), Some("$['a'][-12]".to_string()));
        assert_eq!(walk(&serde_json::json!([1, 2]), &parse("$[-1]").unwrap()), None);
        assert_eq!(parse("$[-0]"), None);
        assert_eq!(parse("$[-01]"), None);
        assert_eq!(parse("$[-]"), None);
        assert_eq!(parse("$.a"), None);
        assert_eq!(parse("$[\"a\"]"), None);
        assert_eq!(parse("$['\\u000B']"), None);
        assert_eq!(parse("$['\\u0041']"), None);
        assert_eq!(parse("$['\\/']"), None);
        assert_eq!(render(&[Step::Name("\u{b}".into())]), "$['\\u000b']");
    }
}
