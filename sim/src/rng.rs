//! xoshiro256** seeded through splitmix64; label hashing so that every choice in a
//! batch derives from the one integer VERIF_SEED. No clock, no OS entropy.

#[derive(Clone, Debug)]
pub struct Rng {
    s: [u64; 4],
}

pub fn splitmix(x: &mut u64) -> u64 {
    *x = x.wrapping_add(0x9E37_79B9_7F4A_7C15);
    let mut z = *x;
    z = (z ^ (z >> 30)).wrapping_mul(0xBF58_476D_1CE4_E5B9);
    z = (z ^ (z >> 27)).wrapping_mul(0x94D0_49BB_1331_11EB);
    z ^ (z >> 31)
}

/// FNV-1a 64 over bytes.
pub fn fnv(bytes: &[u8]) -> u64 {
    let mut h: u64 = 0xcbf2_9ce4_8422_2325;
    for b in bytes {
        h ^= *b as u64;
        h = h.wrapping_mul(0x0000_0100_0000_01B3);
    }
    h
}

pub fn fnv_add(h: u64, bytes: &[u8]) -> u64 {
    let mut h = h;
    for b in bytes {
        h ^= *b as u64;
        h = h.wrapping_mul(0x0000_0100_0000_01B3);
    }
    h
}

/// H(seed, label, index): an independent stream per purpose.
pub fn derive(seed: u64, label: &str, idx: u64) -> u64 {
    let mut x = seed ^ fnv(label.as_bytes()).rotate_left(17) ^ idx.wrapping_mul(0xD6E8_FEB8_6659_FD93);
    let a = splitmix(&mut x);
    let b = splitmix(&mut x);
    a ^ b.rotate_left(32)
}

impl Rng {
    pub fn new(seed: u64) -> Rng {
        let mut x = seed;
        let s = [splitmix(&mut x), splitmix(&mut x), splitmix(&mut x), splitmix(&mut x)];
        Rng { s }
    }
    pub fn next(&mut self) -> u64 {
        let r = self.s[1].wrapping_mul(5).rotate_left(7).wrapping_mul(9);
        let t = self.s[1] << 17;
        self.s[2] ^= self.s[0];
        self.s[3] ^= self.s[1];
        self.s[1] ^= self.s[2];
        self.s[0] ^= self.s[3];
        self.s[2] ^= t;
        self.s[3] = self.s[3].rotate_left(45);
        r
    }
    /// uniform in 0..n (n > 0)
    pub fn below(&mut self, n: usize) -> usize {
        debug_assert!(n > 0);
        ((self.next() >> 11) % (n as u64)) as usize
    }
    pub fn range(&mut self, lo: i64, hi_incl: i64) -> i64 {
        lo + self.below((hi_incl - lo + 1) as usize) as i64
    }
    pub fn chance(&mut self, num: u32, den: u32) -> bool {
        (self.below(den as usize) as u32) < num
    }
    pub fn f01(&mut self) -> f64 {
        (self.next() >> 11) as f64 / (1u64 << 53) as f64
    }
    pub fn pick<'a, T>(&mut self, v: &'a [T]) -> &'a T {
        &v[self.below(v.len())]
    }
    /// weighted index
    pub fn weighted(&mut self, w: &[u32]) -> usize {
        let total: u32 = w.iter().sum();
        let mut x = self.below(total as usize) as u32;
        for (i, wi) in w.iter().enumerate() {
            if x < *wi {
                return i;
            }
            x -= *wi;
        }
        w.len() - 1
    }
    pub fn shuffle<T>(&mut self, v: &mut [T]) {
        for i in (1..v.len()).rev() {
            let j = self.below(i + 1);
            v.swap(i, j);
        }
    }
}
