//! C12 — entry points agree and evaluation is a pure function of (query, document).
//! One simulated run = one fresh OS process: 1-4 caller threads under the baton scheduler share
//! documents and parsed queries; every completed operation is compared with the cold oracle
//! (the same call made as the first library call of a process of its own).
use crate::gen::{self, DocParams, QGen};
use crate::obs::{self, DocBox, DocInner};
use crate::report;
use crate::rng::{derive, fnv, fnv_add, Rng};
use crate::sched::{self, Ctx, Fault, InjectedAbort, Jump, Policy, Sched, SchedStats};
use crate::simdoc::{self, Personality};
use jsonpath_rust::parser::model::JpQuery;
use jsonpath_rust::query::queryable::Queryable;
use jsonpath_rust::JsonPath;
use serde::{Deserialize, Serialize};
use serde_json::{json, Value};
use std::cell::RefCell;
use std::collections::{BTreeMap, BTreeSet, HashMap};
use std::io::{Read, Write};
use std::process::{Command, Stdio};
use std::sync::{Arc, Mutex};

// ---------------------------------------------------------------------------------------------
// plan

#[derive(Clone, Debug, Serialize, Deserialize, PartialEq)]
pub enum Op {
    /// doc.query(q)
    Q { q: usize, d: usize },
    /// doc.query_only_path(q)
    P { q: usize, d: usize },
    /// doc.query_with_path(q)
    W { q: usize, d: usize },
    /// parse_json_path(query of slot s) and keep the result in slot s
    Parse { s: usize },
    /// js_path_process(&slot s, doc)
    E { s: usize, d: usize },
    /// clone the parsed query of slot s into slot t (same query by construction)
    CloneQ { s: usize, t: usize },
    /// doc.reference(q used as a path)
    Ref { q: usize, d: usize },
    /// drop the document in slot d and build the k-th of its planned contents in its place
    Swap { d: usize, k: usize },
    /// replace the document in slot d by a deep clone of itself
    CloneDoc { d: usize },
    /// clone the parsed query of slot s, assign the clone's public `segments` field from a fresh parse
    /// of query q, and keep the edited clone in slot s: from now on slot s stands for query q
    EditQ { s: usize, q: usize },
    /// `reference_mut(q used as a path)` on a private deep clone of the document in slot d, a write
    /// through the handle, and the clone is dropped: the look / update part of a caller's history
    /// (the shared document itself is never written)
    RefMut { q: usize, d: usize },
    /// the caller updates the document in slot d *in place* into the k-th of its planned contents
    /// (possible only while nobody else holds the document or results borrowed from it; otherwise, and
    /// for the stubbed store, this is `Swap`)
    EditDoc { d: usize, k: usize },
}

impl Op {
    fn kind(&self) -> &'static str {
        match self {
            Op::Q { .. } => "Q",
            Op::P { .. } => "P",
            Op::W { .. } => "W",
            Op::Parse { .. } => "Parse",
            Op::E { .. } => "E",
            Op::CloneQ { .. } => "CloneQ",
            Op::Ref { .. } => "Ref",
            Op::Swap { .. } => "Swap",
            Op::CloneDoc { .. } => "CloneDoc",
            Op::EditQ { .. } => "EditQ",
            Op::RefMut { .. } => "RefMut",
            Op::EditDoc { .. } => "EditDoc",
        }
    }
}

#[derive(Clone, Debug, Serialize, Deserialize)]
pub struct Plan {
    pub seed: u64,
    /// 0 = serde_json::Value, 1.. = SimDoc with personality (repr - 1)
    pub repr: u8,
    pub contents: Vec<String>,
    /// per document slot: indices into `contents` it can ever hold (first = initial)
    pub slots: Vec<Vec<usize>>,
    pub queries: Vec<String>,
    /// per parsed-query slot: index into `queries`
    pub qslots: Vec<usize>,
    pub clients: Vec<Vec<Op>>,
    pub policy: Policy,
    pub site_mask: u64,
    pub faults: Vec<Fault>,
    pub thread_per_op: bool,
    /// a recorded schedule to follow literally (replay); absent = decisions come from the PRNG
    #[serde(default)]
    pub schedule: Option<String>,
    /// queries[filler_from..] are filler texts over member names that occur in no document
    #[serde(default)]
    pub filler_from: Option<usize>,
    /// (client, operation, KiB): operations executed that much deeper in the caller's stack
    #[serde(default)]
    pub deep_stack: Vec<(usize, usize, usize)>,
    /// the stubbed store's `get` calls back into the library (a nested evaluation) on every call
    #[serde(default)]
    pub reenter_get: bool,
    /// clock jumps injected through the clock seam (simclock.so)
    #[serde(default)]
    pub clock_jumps: Vec<Jump>,
    /// (client, r): the client's LAST operation is not made from the body of its thread but from the
    /// destructor of a thread-local value of the caller's own, registered just before operation r
    /// (thread-locals are destroyed last-registered-first, so r decides which of the library's
    /// thread-locals, if it has any, are already gone when the call is made)
    #[serde(default)]
    pub exit_calls: Vec<(usize, usize)>,
    /// (client, operation, bytes): while that operation is inside the library, the allocator refuses
    /// blocks of at least that many bytes. The operation may then end the process (an infallible
    /// allocation aborts) — the run is repeated without the fault — or complete; if it completes, its
    /// result is judged like any other.
    #[serde(default)]
    pub alloc_faults: Vec<(usize, usize, usize)>,
    /// (client, operation): the call is made from a `Drop` while a panic of the caller's own is
    /// unwinding (`std::thread::panicking()` is true inside the library)
    #[serde(default)]
    pub unwinding_ops: Vec<(usize, usize)>,
    /// environment variables of the run process (None = removed), set before any thread starts
    #[serde(default)]
    pub env: Vec<(String, Option<String>)>,
    /// (client, operation, name, value): the variable is set (or removed) just before that operation
    #[serde(default)]
    pub env_changes: Vec<(usize, usize, String, Option<String>)>,
    /// (client, operation, mode): the results of that `query_with_path` / `js_path_process` call are
    /// kept alive and only looked at (paths, nodes) later — mode 0: after the client's last operation,
    /// on its own thread; 1: at once, on a fresh OS thread; 2: after the last operation, on a fresh
    /// OS thread
    #[serde(default)]
    pub held: Vec<(usize, usize, u8)>,
    /// (client, operation, what, value): ambient process state changed just before that operation —
    /// "stderr": file descriptor 2 becomes a pipe nobody reads (writes fail with EPIPE);
    /// "rlimit_stack": the soft RLIMIT_STACK becomes `value` KiB; "cwd": the working directory becomes
    /// "/" (value 0) or the temp directory (value 1)
    #[serde(default)]
    pub ambient: Vec<(usize, usize, String, u64)>,
    /// document slots that hold a `serde_json::Value` although the run's representation (`repr`) is the
    /// stubbed store: one process then evaluates over two `Queryable` types
    #[serde(default)]
    pub value_slots: Vec<usize>,
    /// the run process is the build with debug assertions on (if ./check built one)
    #[serde(default)]
    pub dbg_build: bool,
}

/// The representation of the documents of slot d.
pub fn slot_repr(plan: &Plan, d: usize) -> u8 {
    if plan.value_slots.contains(&d) {
        0
    } else {
        plan.repr
    }
}

/// The representations whose cold results a plan may need.
pub fn plan_reprs(plan: &Plan) -> Vec<u8> {
    if plan.value_slots.is_empty() || plan.repr == 0 {
        vec![plan.repr]
    } else {
        vec![0, plan.repr]
    }
}

/// plan_keys for every representation in the plan.
pub fn plan_keys_r(plan: &Plan) -> Vec<(u8, usize, usize)> {
    let mut out = vec![];
    for (ct, q) in plan_keys(plan) {
        for r in plan_reprs(plan) {
            out.push((r, ct, q));
        }
    }
    out
}

#[repr(C)]
struct RLimit {
    cur: u64,
    max: u64,
}
extern "C" {
    fn pipe(fds: *mut i32) -> i32;
    fn dup2(old: i32, new: i32) -> i32;
    fn close(fd: i32) -> i32;
    fn getrlimit(resource: i32, r: *mut RLimit) -> i32;
    fn setrlimit(resource: i32, r: *const RLimit) -> i32;
}

fn apply_ambient(what: &str, value: u64) {
    match what {
        "stderr" => unsafe {
            let mut fds = [0i32; 2];
            if pipe(fds.as_mut_ptr()) == 0 {
                close(fds[0]);
                dup2(fds[1], 2);
                close(fds[1]);
            }
        },
        "rlimit_stack" => unsafe {
            const RLIMIT_STACK: i32 = 3;
            let mut r = RLimit { cur: 0, max: 0 };
            if getrlimit(RLIMIT_STACK, &mut r) == 0 {
                let want = value * 1024;
                r.cur = if want <= r.max { want } else { r.max };
                setrlimit(RLIMIT_STACK, &r);
            }
        },
        "cwd" => {
            let _ = std::env::set_current_dir(if value == 0 { std::path::PathBuf::from("/") } else { std::env::temp_dir() });
        }
        _ => {}
    }
}

enum HeldRes {
    V(Vec<jsonpath_rust::query::QueryRef<'static, Value>>),
    S(Vec<jsonpath_rust::query::QueryRef<'static, simdoc::SimDoc>>),
    Err,
}

/// Results of an evaluation that the caller keeps; `doc` keeps what they borrow from alive.
struct Held {
    c: usize,
    j: usize,
    kind: &'static str,
    q: usize,
    mode: u8,
    res: Option<HeldRes>,
    doc: Arc<DocBox>,
}

fn digest_held(w: &Arc<World>, mut h: Held) {
    let on_other_thread = h.mode != 0;
    let res = h.res.take().unwrap();
    let doc = h.doc.clone();
    let look = move || -> String {
        std::panic::catch_unwind(std::panic::AssertUnwindSafe(|| match res {
            HeldRes::V(v) => obs::fmt_w(&doc.locs, v),
            HeldRes::S(v) => obs::fmt_w(&doc.locs, v),
            HeldRes::Err => "Err".to_string(),
        }))
        .unwrap_or_else(|_| "Panic".to_string())
    };
    let o = if on_other_thread {
        let job = Shared(look);
        std::thread::Builder::new()
            .stack_size(16 << 20)
            .spawn(move || {
                let job = job;
                (job.0)()
            })
            .expect("harness: spawn")
            .join()
            .unwrap_or_else(|_| "Panic".to_string())
    } else {
        look()
    };
    {
        let mut p = w.probes.lock().unwrap();
        p.results_looked_at_later += 1;
        if on_other_thread {
            p.results_looked_at_on_another_thread += 1;
        }
    }
    w.recs.lock().unwrap().push(OpRec { c: h.c, j: h.j, kind: h.kind.into(), q: h.q, content: h.doc.content, digest: fnv(o.as_bytes()), status: "done".into(), obs: Some(o) });
}

fn digest_all_held(w: &Arc<World>, c: usize) {
    let hs: Vec<Held> = std::mem::take(&mut *w.held[c].lock().unwrap());
    for h in hs {
        digest_held(w, h);
    }
}

const HELD_MARK: &str = "\u{1}held";

/// Payload of the caller's own panic under which `unwinding_ops` are executed.
pub struct HarnessUnwind;

struct RunInDrop<'a>(Option<Box<dyn FnOnce() + 'a>>);
impl<'a> Drop for RunInDrop<'a> {
    fn drop(&mut self) {
        if let Some(f) = self.0.take() {
            f()
        }
    }
}

fn apply_env(name: &str, value: &Option<String>) {
    match value {
        Some(v) => std::env::set_var(name, v),
        None => std::env::remove_var(name),
    }
}

/// `deep_stack` entries at or above this value mean "burn the stack down until (value - LOW_STACK)
/// KiB remain" instead of "go that many KiB deeper".
pub const LOW_STACK: usize = 1_000_000;

#[derive(Clone, Debug, Serialize, Deserialize)]
pub struct OpRec {
    pub c: usize,
    pub j: usize,
    pub kind: String,
    /// index into plan.queries (usize::MAX = none)
    pub q: usize,
    /// index into plan.contents the operation actually saw (usize::MAX = none)
    pub content: usize,
    pub digest: u64,
    /// done | aborted | panic
    pub status: String,
    #[serde(default)]
    pub obs: Option<String>,
}

#[derive(Clone, Debug, Serialize, Deserialize, Default)]
pub struct Probes {
    pub same_query_two_contents: u64,
    pub equal_content_two_live_docs: u64,
    pub doc_rebuilt_at_same_address: u64,
    pub doc_rebuilds: u64,
    pub ops_after_abort_on_same_client: u64,
    pub match_and_search_same_pattern: u64,
    pub first_op_kind: String,
    pub threads_used: u64,
    pub switch_at_regex_pre: u64,
    #[serde(default)]
    pub clock_seam: bool,
    #[serde(default)]
    pub clock_reads: u64,
    #[serde(default)]
    pub calls_from_tls_destructor: u64,
    #[serde(default)]
    pub parsed_queries_edited: u64,
    #[serde(default)]
    pub reference_mut_calls: u64,
    #[serde(default)]
    pub allocations_refused: u64,
    #[serde(default)]
    pub calls_while_unwinding: u64,
    #[serde(default)]
    pub env_changes: u64,
    #[serde(default)]
    pub ambient_changes: u64,
    #[serde(default)]
    pub docs_edited_in_place: u64,
    #[serde(default)]
    pub results_looked_at_later: u64,
    #[serde(default)]
    pub results_looked_at_on_another_thread: u64,
}

#[derive(Clone, Debug, Serialize, Deserialize)]
pub struct RunResult {
    pub fingerprint: u64,
    pub ops: Vec<OpRec>,
    pub sched: SchedStats,
    pub schedule: String,
    pub probes: Probes,
    /// documents whose serialisation changed, parsed queries whose AST changed
    pub integrity_failures: Vec<String>,
    #[serde(default)]
    pub log: Vec<(u64, u8, u16, u8, u8)>,
    /// set by the driver: the run was executed with atomic operations after a stall
    #[serde(default)]
    pub atomic_variant: bool,
}

// ---------------------------------------------------------------------------------------------
// executing one run (inside the run process)

struct Shared<T>(T);
// The baton serialises all client execution; the compile-time Send + Sync part of the property is
// decided by /verif/probe, so the harness itself must compile whatever the repository's types are.
unsafe impl<T> Send for Shared<T> {}
unsafe impl<T> Sync for Shared<T> {}

struct World {
    plan: Plan,
    values: Vec<Value>,
    slots: Vec<Mutex<Arc<Shared<Arc<DocBox>>>>>,
    qslots: Vec<Mutex<Option<Arc<Shared<Result<JpQuery, ()>>>>>>,
    qslot_first_debug: Vec<Mutex<Option<String>>>,
    /// which query text each parsed-query slot stands for right now (EditQ changes it)
    qslot_cur: Vec<Mutex<usize>>,
    /// per client: results kept for later
    held: Vec<Mutex<Vec<Held>>>,
    recs: Mutex<Vec<OpRec>>,
    integrity: Mutex<Vec<String>>,
    probes: Mutex<Probes>,
    freed_roots: Mutex<Vec<usize>>,
    full: bool,
}

fn sim_repr(repr: u8) -> bool {
    repr > 0
}

fn check_doc_integrity(w: &World, d: &DocBox) {
    let now = d.to_json();
    let want = w.values[d.content].to_string();
    if now != want {
        w.integrity.lock().unwrap().push(format!("document with content #{} changed: was {} now {}", d.content, want, now));
    }
}

fn get_pq(w: &World, s: usize) -> Arc<Shared<Result<JpQuery, ()>>> {
    let cur = w.qslots[s].lock().unwrap().clone();
    match cur {
        Some(p) => p,
        None => {
            let q = &w.plan.queries[w.plan.qslots[s]];
            let p = Arc::new(Shared(obs::parse(q)));
            *w.qslot_first_debug[s].lock().unwrap() = Some(obs::obs_parse(&p.0));
            *w.qslots[s].lock().unwrap() = Some(p.clone());
            *w.qslot_cur[s].lock().unwrap() = w.plan.qslots[s];
            p
        }
    }
}

/// Returns (query index, content index, observation).
fn exec_op(w: &World, op: &Op, hold: Option<(usize, usize, u8)>) -> (usize, usize, String) {
    let doc_of = |d: usize| -> Arc<DocBox> { w.slots[d].lock().unwrap().0.clone() };
    if let (Some((c, j, mode)), Op::W { .. } | Op::E { .. }) = (hold, op) {
        // evaluate, keep the results, look at them later
        let (q, doc, res, kind) = match op {
            Op::W { q, d } => {
                let doc = doc_of(*d);
                let qs = &w.plan.queries[*q];
                let res = match &doc.inner {
                    DocInner::V(v) => match crate::allocseam::in_library(|| v.query_with_path(qs)) {
                        Ok(r) => HeldRes::V(unsafe { std::mem::transmute::<Vec<jsonpath_rust::query::QueryRef<'_, Value>>, Vec<jsonpath_rust::query::QueryRef<'static, Value>>>(r) }),
                        Err(_) => HeldRes::Err,
                    },
                    DocInner::S(s) => match crate::allocseam::in_library(|| s.query_with_path(qs)) {
                        Ok(r) => HeldRes::S(unsafe { std::mem::transmute::<Vec<jsonpath_rust::query::QueryRef<'_, simdoc::SimDoc>>, Vec<jsonpath_rust::query::QueryRef<'static, simdoc::SimDoc>>>(r) }),
                        Err(_) => HeldRes::Err,
                    },
                };
                (*q, doc, res, "W")
            }
            Op::E { s, d } => {
                let doc = doc_of(*d);
                let pq = get_pq(w, *s);
                let cur_q = *w.qslot_cur[*s].lock().unwrap();
                let res = match &pq.0 {
                    Err(_) => HeldRes::Err,
                    Ok(pq) => match &doc.inner {
                        DocInner::V(v) => match crate::allocseam::in_library(|| jsonpath_rust::query::js_path_process(pq, v)) {
                            Ok(r) => HeldRes::V(unsafe { std::mem::transmute::<Vec<jsonpath_rust::query::QueryRef<'_, Value>>, Vec<jsonpath_rust::query::QueryRef<'static, Value>>>(r) }),
                            Err(_) => HeldRes::Err,
                        },
                        DocInner::S(sd) => match crate::allocseam::in_library(|| jsonpath_rust::query::js_path_process(pq, sd)) {
                            Ok(r) => HeldRes::S(unsafe { std::mem::transmute::<Vec<jsonpath_rust::query::QueryRef<'_, simdoc::SimDoc>>, Vec<jsonpath_rust::query::QueryRef<'static, simdoc::SimDoc>>>(r) }),
                            Err(_) => HeldRes::Err,
                        },
                    },
                };
                (cur_q, doc, res, "E")
            }
            _ => unreachable!(),
        };
        let content = doc.content;
        w.held[c].lock().unwrap().push(Held { c, j, kind, q, mode, res: Some(res), doc });
        return (q, content, HELD_MARK.to_string());
    }
    match op {
        Op::Q { q, d } => {
            let doc = doc_of(*d);
            let qs = &w.plan.queries[*q];
            let o = match &doc.inner {
                DocInner::V(v) => obs::obs_q(v, &doc.locs, qs),
                DocInner::S(s) => obs::obs_q(s, &doc.locs, qs),
            };
            (*q, doc.content, o)
        }
        Op::P { q, d } => {
            let doc = doc_of(*d);
            let qs = &w.plan.queries[*q];
            let o = match &doc.inner {
                DocInner::V(v) => obs::obs_p(v, qs),
                DocInner::S(s) => obs::obs_p(s, qs),
            };
            (*q, doc.content, o)
        }
        Op::W { q, d } => {
            let doc = doc_of(*d);
            let qs = &w.plan.queries[*q];
            let o = match &doc.inner {
                DocInner::V(v) => obs::obs_w(v, &doc.locs, qs),
                DocInner::S(s) => obs::obs_w(s, &doc.locs, qs),
            };
            (*q, doc.content, o)
        }
        Op::Ref { q, d } => {
            let doc = doc_of(*d);
            let qs = &w.plan.queries[*q];
            let o = match &doc.inner {
                DocInner::V(v) => obs::obs_ref(v, &doc.locs, qs),
                DocInner::S(s) => obs::obs_ref(s, &doc.locs, qs),
            };
            (*q, doc.content, o)
        }
        Op::RefMut { q, d } => {
            let doc = doc_of(*d);
            let qs = &w.plan.queries[*q];
            let o = match &doc.inner {
                DocInner::V(v) => {
                    let mut cl: Value = v.clone();
                    let got: Option<*mut Value> = cl.reference_mut(qs.to_string()).map(|h| h as *mut Value);
                    match got {
                        None => "None".to_string(),
                        Some(p) => {
                            let at = crate::npath::loc_of(&cl, p as *const Value).map(|l| crate::npath::loc_str(&l)).unwrap_or_else(|| "FOREIGN".to_string());
                            if at != "FOREIGN" {
                                // the update itself
                                unsafe { *p = Value::from("written through reference_mut") };
                            }
                            format!("Some({})", at)
                        }
                    }
                }
                DocInner::S(sd) => {
                    let mut cl = sd.clone();
                    match cl.reference_mut(qs.to_string()) {
                        None => "None".to_string(),
                        Some(_) => "Some(?)".to_string(),
                    }
                }
            };
            w.probes.lock().unwrap().reference_mut_calls += 1;
            (*q, doc.content, o)
        }
        Op::Parse { s } => {
            let q = &w.plan.queries[w.plan.qslots[*s]];
            let p = Arc::new(Shared(obs::parse(q)));
            let o = obs::obs_parse(&p.0);
            let mut fd = w.qslot_first_debug[*s].lock().unwrap();
            if fd.is_none() {
                *fd = Some(o.clone());
            }
            drop(fd);
            *w.qslots[*s].lock().unwrap() = Some(p);
            *w.qslot_cur[*s].lock().unwrap() = w.plan.qslots[*s];
            (w.plan.qslots[*s], usize::MAX, o)
        }
        Op::EditQ { s, q } => {
            let pq = get_pq(w, *s);
            let fresh = obs::parse(&w.plan.queries[*q]);
            let edited: Result<JpQuery, ()> = match (pq.0.clone(), fresh) {
                (Ok(mut mine), Ok(other)) => {
                    mine.segments = other.segments;
                    Ok(mine)
                }
                (_, other) => other,
            };
            *w.qslots[*s].lock().unwrap() = Some(Arc::new(Shared(edited)));
            *w.qslot_cur[*s].lock().unwrap() = *q;
            w.probes.lock().unwrap().parsed_queries_edited += 1;
            (*q, usize::MAX, "edited".to_string())
        }
        Op::E { s, d } => {
            let doc = doc_of(*d);
            let pq = get_pq(w, *s);
            let cur_q = *w.qslot_cur[*s].lock().unwrap();
            let o = match &doc.inner {
                DocInner::V(v) => obs::obs_e(v, &doc.locs, &pq.0),
                DocInner::S(sd) => obs::obs_e(sd, &doc.locs, &pq.0),
            };
            (cur_q, doc.content, o)
        }
        Op::CloneQ { s, t } => {
            let pq = get_pq(w, *s);
            let cur_q = *w.qslot_cur[*s].lock().unwrap();
            let cl: Result<JpQuery, ()> = pq.0.clone();
            // what the clone is worth is judged by the evaluations made through it (E on slot t)
            let o = "cloned";
            {
                let mut fd = w.qslot_first_debug[*t].lock().unwrap();
                if fd.is_none() {
                    *fd = Some(obs::obs_parse(&cl));
                }
            }
            *w.qslots[*t].lock().unwrap() = Some(Arc::new(Shared(cl)));
            *w.qslot_cur[*t].lock().unwrap() = cur_q;
            (cur_q, usize::MAX, o.to_string())
        }
        Op::EditDoc { d, k } => {
            let content = w.plan.slots[*d][*k % w.plan.slots[*d].len()];
            let mut edited = false;
            {
                let mut slot = w.slots[*d].lock().unwrap();
                if let Some(outer) = Arc::get_mut(&mut *slot) {
                    if let Some(doc) = Arc::get_mut(&mut outer.0) {
                        if doc.content != usize::MAX && matches!(doc.inner, DocInner::V(_)) {
                            let now = doc.to_json();
                            if now != w.values[doc.content].to_string() {
                                w.integrity.lock().unwrap().push(format!("document with content #{} changed: now {}", doc.content, now));
                            }
                            edited = doc.edit_in_place(&w.values[content], content);
                        }
                    }
                }
            }
            if edited {
                w.probes.lock().unwrap().docs_edited_in_place += 1;
                return (usize::MAX, content, "-".into());
            }
            return exec_op(w, &Op::Swap { d: *d, k: *k }, None);
        }
        Op::Swap { d, k } => {
            let content = w.plan.slots[*d][*k % w.plan.slots[*d].len()];
            // drop first, then rebuild: gives the allocator the chance to reuse the addresses
            let placeholder = Arc::new(Shared(DocBox::new(&Value::Null, false, usize::MAX)));
            let old = std::mem::replace(&mut *w.slots[*d].lock().unwrap(), placeholder);
            let old_root = old.0.root_addr;
            let sole = Arc::strong_count(&old) == 1 && Arc::strong_count(&old.0) == 1;
            if old.0.content != usize::MAX {
                check_doc_integrity(w, &old.0);
            }
            drop(old);
            if sole {
                w.freed_roots.lock().unwrap().push(old_root);
            }
            let new = DocBox::new(&w.values[content], sim_repr(slot_repr(&w.plan, *d)), content);
            {
                let mut p = w.probes.lock().unwrap();
                p.doc_rebuilds += 1;
                if w.freed_roots.lock().unwrap().contains(&new.root_addr) {
                    p.doc_rebuilt_at_same_address += 1;
                }
            }
            *w.slots[*d].lock().unwrap() = Arc::new(Shared(new));
            (usize::MAX, content, "-".into())
        }
        Op::CloneDoc { d } => {
            let doc = doc_of(*d);
            check_doc_integrity(w, &doc);
            let new = match &doc.inner {
                DocInner::V(v) => {
                    let c: Value = v.clone();
                    DocBox::new(&c, false, doc.content)
                }
                DocInner::S(s) => {
                    let c = s.clone();
                    DocBox::new(&c.to_value(), true, doc.content)
                }
            };
            *w.slots[*d].lock().unwrap() = Arc::new(Shared(new));
            (usize::MAX, doc.content, "-".into())
        }
    }
}

/// Runs `f` about `kib` KiB deeper in the stack (a caller that reaches the library from the bottom
/// of its own recursion).
#[inline(never)]
fn at_depth<R>(kib: usize, f: &mut dyn FnMut() -> R) -> R {
    if kib == 0 {
        return f();
    }
    let mut pad = [0u8; 16 * 1024];
    pad[kib % 1024] = 1;
    let pad = std::hint::black_box(&mut pad);
    let r = at_depth(kib.saturating_sub(16), f);
    std::hint::black_box(pad[0]);
    r
}

extern "C" {
    fn pthread_self() -> usize;
    fn pthread_getattr_np(t: usize, attr: *mut [u64; 16]) -> i32;
    fn pthread_attr_getstack(attr: *const [u64; 16], addr: *mut *mut std::ffi::c_void, size: *mut usize) -> i32;
    fn pthread_attr_destroy(attr: *mut [u64; 16]) -> i32;
}

/// Lowest usable address of the calling thread's stack (0 = unknown).
fn stack_low() -> usize {
    unsafe {
        let mut attr = [0u64; 16];
        if pthread_getattr_np(pthread_self(), &mut attr) != 0 {
            return 0;
        }
        let mut addr: *mut std::ffi::c_void = std::ptr::null_mut();
        let mut size = 0usize;
        let ok = pthread_attr_getstack(&attr, &mut addr, &mut size) == 0;
        pthread_attr_destroy(&mut attr);
        if ok {
            addr as usize
        } else {
            0
        }
    }
}

/// Runs `f` with about `kib` KiB of stack left (a caller on a small thread stack, or one that has
/// used most of its own).
#[inline(never)]
fn until_remaining<R>(kib: usize, low: usize, f: &mut dyn FnMut() -> R) -> R {
    let mut pad = [0u8; 4 * 1024];
    let here = pad.as_ptr() as usize;
    if low == 0 || here <= low || here - low <= kib * 1024 + 4096 {
        return f();
    }
    pad[kib % 1024] = 1;
    let pad = std::hint::black_box(&mut pad);
    let r = until_remaining(kib, low, f);
    std::hint::black_box(pad[0]);
    r
}

/// A thread-local value of the caller's own whose destructor makes the client's last call.
struct ExitHook {
    w: Arc<World>,
    sch: Arc<Sched>,
    c: usize,
    j: usize,
}
impl Drop for ExitHook {
    fn drop(&mut self) {
        // no scheduler context here (it is cleared, or already destroyed): the call runs without
        // schedule points, while this client still holds the baton
        run_client_op(&self.w, self.c, self.j);
        self.w.probes.lock().unwrap().calls_from_tls_destructor += 1;
        self.sch.finish(self.c);
    }
}
thread_local! {
    static EXIT_HOOK: RefCell<Option<ExitHook>> = const { RefCell::new(None) };
}

fn run_client_op(w: &Arc<World>, c: usize, j: usize) {
    let op = w.plan.clients[c][j].clone();
    sched::with_ctx(|x| {
        x.op = j;
        x.in_op = false;
    });
    sched::yield_point(sched::SITE_OP_BEGIN);
    sched::with_ctx(|x| {
        x.in_op = true;
        x.yields_in_op = 0;
        x.site_counts = [0; sched::MAX_SITES];
    });
    let w2 = w.clone();
    let opc = op.clone();
    let depth_kib = w.plan.deep_stack.iter().find(|(cc, jj, _)| *cc == c && *jj == j).map(|(_, _, k)| *k).unwrap_or(0);
    let refuse_from = w.plan.alloc_faults.iter().find(|(cc, jj, _)| *cc == c && *jj == j).map(|(_, _, b)| *b).unwrap_or(0);
    crate::allocseam::arm(refuse_from);
    for (_, _, name, value) in w.plan.env_changes.iter().filter(|(cc, jj, _, _)| *cc == c && *jj == j) {
        // only this client runs right now; the others are parked in the scheduler
        apply_env(name, value);
        w.probes.lock().unwrap().env_changes += 1;
    }
    for (_, _, what, value) in w.plan.ambient.iter().filter(|(cc, jj, _, _)| *cc == c && *jj == j) {
        apply_ambient(what, *value);
        w.probes.lock().unwrap().ambient_changes += 1;
    }
    let hold = w.plan.held.iter().find(|(cc, jj, _)| *cc == c && *jj == j).map(|(_, _, m)| (c, j, *m));
    let body = move || {
        if depth_kib >= LOW_STACK {
            until_remaining(depth_kib - LOW_STACK, stack_low(), &mut || exec_op(&w2, &opc, hold))
        } else {
            at_depth(depth_kib, &mut || exec_op(&w2, &opc, hold))
        }
    };
    let res = if w.plan.unwinding_ops.iter().any(|(cc, jj)| *cc == c && *jj == j) {
        // the call is made from a destructor while this thread is panicking; a panic of the call
        // itself (injected or not) is caught inside the destructor, as a careful caller would
        let mut slot = None;
        let _ = std::panic::catch_unwind(std::panic::AssertUnwindSafe(|| {
            let _g = RunInDrop(Some(Box::new(|| {
                slot = Some(std::panic::catch_unwind(std::panic::AssertUnwindSafe(body)));
            })));
            std::panic::panic_any(HarnessUnwind);
        }));
        w.probes.lock().unwrap().calls_while_unwinding += 1;
        slot.expect("harness: the destructor ran")
    } else {
        std::panic::catch_unwind(std::panic::AssertUnwindSafe(body))
    };
    crate::allocseam::arm(0);
    let aborted_before = sched::with_ctx(|x| {
        x.in_op = false;
        x.aborted_before
    })
    .unwrap_or(false);
    if aborted_before {
        w.probes.lock().unwrap().ops_after_abort_on_same_client += 1;
    }
    let (q, content, status, obs) = match res {
        Ok((q, content, o)) => (q, content, "done", o),
        Err(p) => {
            let (q, d) = match &op {
                Op::Q { q, d } | Op::P { q, d } | Op::W { q, d } | Op::Ref { q, d } | Op::RefMut { q, d } => (*q, *d),
                Op::E { s, d } => (*w.qslot_cur[*s].lock().unwrap(), *d),
                Op::Parse { s } | Op::CloneQ { s, .. } => (w.plan.qslots[*s], usize::MAX),
                Op::EditQ { q, .. } => (*q, usize::MAX),
                _ => (usize::MAX, usize::MAX),
            };
            let _ = d;
            if p.downcast_ref::<InjectedAbort>().is_some() {
                sched::with_ctx(|x| x.aborted_before = true);
                (q, usize::MAX, "aborted", "Aborted".to_string())
            } else {
                (q, usize::MAX, "panic", "Panic".to_string())
            }
        }
    };
    {
        let mut p = w.probes.lock().unwrap();
        if p.first_op_kind.is_empty() {
            p.first_op_kind = op.kind().to_string();
        }
    }
    if obs == HELD_MARK {
        // the record is written when the results are looked at; mode 1 does that right away
        let now: Vec<Held> = {
            let mut g = w.held[c].lock().unwrap();
            let (now, later): (Vec<Held>, Vec<Held>) = std::mem::take(&mut *g).into_iter().partition(|h| h.mode == 1);
            *g = later;
            now
        };
        for h in now {
            digest_held(w, h);
        }
    } else {
        w.recs.lock().unwrap().push(OpRec {
            c,
            j,
            kind: op.kind().into(),
            q,
            content,
            digest: fnv(obs.as_bytes()),
            status: status.into(),
            // kept in both modes so that a full (replay) execution allocates exactly like a plain one
            obs: Some(obs),
        });
    }
    sched::yield_point(sched::SITE_OP_END);
}

fn hook(site: u32) {
    sched::yield_point(site);
}

pub struct AbortSilencer;
pub fn install_panic_hook() {
    let prev = std::panic::take_hook();
    std::panic::set_hook(Box::new(move |info| {
        if info.payload().downcast_ref::<InjectedAbort>().is_some() || info.payload().downcast_ref::<HarnessUnwind>().is_some() {
            return;
        }
        // a panic inside a scheduled client is an observation (`Panic`), not noise
        if sched::with_ctx(|x| x.in_op).unwrap_or(false) {
            return;
        }
        if std::env::var("VERIF_QUIET_PANICS").is_ok() {
            return;
        }
        prev(info);
    }));
}

pub fn execute(plan: Plan, full: bool) -> RunResult {
    #[cfg(jsonpath_rust_verif)]
    jsonpath_rust::verif::set_hook(hook);
    let _ = hook;
    install_panic_hook();
    for (name, value) in &plan.env {
        apply_env(name, value);
    }
    // client usize::MAX: the process was started that way
    for (_, _, what, value) in plan.ambient.iter().filter(|(cc, _, _, _)| *cc == usize::MAX) {
        apply_ambient(what, *value);
    }
    let values: Vec<Value> = plan.contents.iter().map(|t| gen::content_value(t)).collect();
    if sim_repr(plan.repr) {
        simdoc::set_personality(Personality(plan.repr - 1));
    }
    let slots = plan.slots.iter().enumerate().map(|(d, cs)| Mutex::new(Arc::new(Shared(DocBox::new(&values[cs[0]], sim_repr(slot_repr(&plan, d)), cs[0]))))).collect();
    let n = plan.clients.len();
    let follow = plan.schedule.as_ref().and_then(|s| sched::unrle(s));
    let sch = Sched::new(n, plan.seed, plan.policy.clone(), plan.site_mask, plan.faults.clone(), plan.clock_jumps.clone(), follow, true, 5_000_000);
    let w = Arc::new(World {
        values,
        slots,
        qslots: plan.qslots.iter().map(|_| Mutex::new(None)).collect(),
        qslot_first_debug: plan.qslots.iter().map(|_| Mutex::new(None)).collect(),
        qslot_cur: plan.qslots.iter().map(|q| Mutex::new(*q)).collect(),
        held: plan.clients.iter().map(|_| Mutex::new(vec![])).collect(),
        recs: Mutex::new(vec![]),
        integrity: Mutex::new(vec![]),
        probes: Mutex::new(Probes::default()),
        freed_roots: Mutex::new(vec![]),
        full,
        plan,
    });
    let mut handles = vec![];
    let threads_used = Arc::new(std::sync::atomic::AtomicU64::new(0));
    for c in 0..n {
        let w = w.clone();
        let sch = sch.clone();
        let tu = threads_used.clone();
        handles.push(std::thread::Builder::new().stack_size(16 << 20).spawn(move || {
            let repr = w.plan.repr;
            if sim_repr(repr) {
                simdoc::set_personality(Personality(repr - 1));
                simdoc::set_reenter_get(w.plan.reenter_get);
            }
            sch.wait_turn(c);
            tu.fetch_add(1, std::sync::atomic::Ordering::Relaxed);
            sched::install_ctx(Ctx { sched: sch.clone(), id: c, op: 0, in_op: false, yields_in_op: 0, aborted_before: false, site_counts: [0; sched::MAX_SITES] });
            let n_ops = w.plan.clients[c].len();
            let exit_at = w.plan.exit_calls.iter().find(|(cc, _)| *cc == c).map(|(_, r)| (*r).min(n_ops.saturating_sub(1)));
            for j in 0..n_ops {
                if exit_at == Some(j) {
                    EXIT_HOOK.with(|h| *h.borrow_mut() = Some(ExitHook { w: w.clone(), sch: sch.clone(), c, j: n_ops - 1 }));
                }
                if exit_at.is_some() && j == n_ops - 1 {
                    // made from the destructor of EXIT_HOOK, after this closure has returned
                    digest_all_held(&w, c);
                    sched::clear_ctx();
                    return;
                }
                if w.plan.thread_per_op && exit_at.is_none() {
                    // the client's operation runs on a fresh OS thread (thread-local churn)
                    let ctx = sched::with_ctx(|x| Ctx { sched: x.sched.clone(), id: x.id, op: x.op, in_op: false, yields_in_op: 0, aborted_before: x.aborted_before, site_counts: [0; sched::MAX_SITES] }).unwrap();
                    let w2 = w.clone();
                    let tu2 = tu.clone();
                    let back = std::thread::Builder::new().stack_size(16 << 20).spawn(move || {
                        if sim_repr(w2.plan.repr) {
                            simdoc::set_personality(Personality(w2.plan.repr - 1));
                            simdoc::set_reenter_get(w2.plan.reenter_get);
                        }
                        tu2.fetch_add(1, std::sync::atomic::Ordering::Relaxed);
                        sched::install_ctx(ctx);
                        run_client_op(&w2, c, j);
                        sched::with_ctx(|x| x.aborted_before).unwrap_or(false)
                    })
                    .expect("harness: spawn")
                    .join()
                    .expect("harness: op thread died");
                    sched::with_ctx(|x| x.aborted_before = back);
                } else {
                    run_client_op(&w, c, j);
                }
            }
            digest_all_held(&w, c);
            sched::clear_ctx();
            sch.finish(c);
        }).expect("harness: spawn"));
    }
    sch.start();
    sch.wait_done();
    for h in handles {
        h.join().expect("harness: client thread died");
    }
    // history checks: documents unchanged, parsed queries unchanged
    for s in &w.slots {
        let d = s.lock().unwrap().0.clone();
        if d.content != usize::MAX {
            check_doc_integrity(&w, &d);
        }
    }
    let mut recs = w.recs.lock().unwrap().clone();
    recs.sort_by_key(|r| (r.c, r.j));
    if !full {
        for r in recs.iter_mut() {
            r.obs = None;
        }
    }
    let st = sch.stats();
    let mut fp = st.log_hash;
    for r in &recs {
        fp = fnv_add(fp, &[r.c as u8, r.j as u8]);
        fp = fnv_add(fp, &r.digest.to_le_bytes());
        fp = fnv_add(fp, &(r.content as u64).to_le_bytes());
    }
    let mut probes = w.probes.lock().unwrap().clone();
    probes.threads_used = threads_used.load(std::sync::atomic::Ordering::Relaxed);
    probes.switch_at_regex_pre = st.switches_by_site.get(8).copied().unwrap_or(0);
    probes.allocations_refused = crate::allocseam::refused();
    probes.clock_seam = sched::clock_seam_present();
    probes.clock_reads = sched::clock_reads().unwrap_or(0);
    // plan-shape probes
    let mut q_contents: HashMap<usize, BTreeSet<usize>> = HashMap::new();
    for r in &recs {
        if r.q != usize::MAX && r.content != usize::MAX {
            q_contents.entry(r.q).or_default().insert(r.content);
        }
    }
    probes.same_query_two_contents = q_contents.values().filter(|s| s.len() >= 2).count() as u64;
    let initial: Vec<usize> = w.plan.slots.iter().map(|s| s[0]).collect();
    let mut seen = BTreeSet::new();
    for c in &initial {
        if !seen.insert(w.plan.contents[*c].clone()) {
            probes.equal_content_two_live_docs += 1;
        }
    }
    let integrity = w.integrity.lock().unwrap().clone();
    RunResult { fingerprint: fp, ops: recs, schedule: sched::rle(&sch.recorded()), log: if full { sch.full_log() } else { vec![] }, sched: st, probes, integrity_failures: integrity, atomic_variant: false }
}

/// `sim run [--full]`: plan on stdin, result on stdout.
pub fn run_main(full: bool) -> i32 {
    let mut text = String::new();
    std::io::stdin().read_to_string(&mut text).expect("stdin");
    let plan: Plan = match crate::report::from_json(&text) {
        Ok(p) => p,
        Err(e) => {
            eprintln!("harness error: bad plan: {}", e);
            return 2;
        }
    };
    let r = execute(plan, full);
    println!("{}", serde_json::to_string(&r).unwrap());
    0
}

// ---------------------------------------------------------------------------------------------
// cold oracle process

#[derive(Clone, Debug, Serialize, Deserialize)]
pub struct ColdReq {
    pub repr: u8,
    pub content: String,
    pub query: String,
}

#[derive(Clone, Debug, Serialize, Deserialize)]
pub struct ColdRes {
    pub w: String,
    pub p: String,
    pub q: String,
    pub e: String,
    pub parse: String,
    pub r#ref: String,
    pub disagreement: Option<String>,
}

/// `sim cold`: one key on stdin; `query_with_path` is the first library call this process makes.
pub fn cold_main() -> i32 {
    let mut text = String::new();
    std::io::stdin().read_to_string(&mut text).expect("stdin");
    let req: ColdReq = match crate::report::from_json(&text) {
        Ok(p) => p,
        Err(e) => {
            eprintln!("harness error: bad cold request: {}", e);
            return 2;
        }
    };
    install_panic_hook();
    std::env::set_var("VERIF_QUIET_PANICS", "1");
    let v: Value = gen::content_value(&req.content);
    if sim_repr(req.repr) {
        simdoc::set_personality(Personality(req.repr - 1));
    }
    let doc = DocBox::new(&v, sim_repr(req.repr), 0);
    let guard = |f: &dyn Fn() -> String| -> String { std::panic::catch_unwind(std::panic::AssertUnwindSafe(f)).unwrap_or_else(|_| "Panic".into()) };
    let qs = req.query.as_str();
    let (w, p, q, e, parse, rf, dis);
    match &doc.inner {
        DocInner::V(d) => {
            w = guard(&|| obs::obs_w(d, &doc.locs, qs));
            p = guard(&|| obs::obs_p(d, qs));
            q = guard(&|| obs::obs_q(d, &doc.locs, qs));
            parse = guard(&|| obs::obs_parse(&obs::parse(qs)));
            e = guard(&|| obs::obs_e(d, &doc.locs, &obs::parse(qs)));
            rf = guard(&|| obs::obs_ref(d, &doc.locs, qs));
            dis = std::panic::catch_unwind(std::panic::AssertUnwindSafe(|| obs::triple(d, &doc.locs, qs).disagreement())).unwrap_or(None);
        }
        DocInner::S(d) => {
            w = guard(&|| obs::obs_w(d, &doc.locs, qs));
            p = guard(&|| obs::obs_p(d, qs));
            q = guard(&|| obs::obs_q(d, &doc.locs, qs));
            parse = guard(&|| obs::obs_parse(&obs::parse(qs)));
            e = guard(&|| obs::obs_e(d, &doc.locs, &obs::parse(qs)));
            rf = guard(&|| obs::obs_ref(d, &doc.locs, qs));
            dis = std::panic::catch_unwind(std::panic::AssertUnwindSafe(|| obs::triple(d, &doc.locs, qs).disagreement())).unwrap_or(None);
        }
    }
    let mut dis = dis;
    if dis.is_none() && doc.to_json() != v.to_string() {
        dis = Some("the document changed during evaluation".into());
    }
    let res = ColdRes { w, p, q, e, parse, r#ref: rf, disagreement: dis };
    println!("{}", serde_json::to_string(&res).unwrap());
    0
}

// ---------------------------------------------------------------------------------------------
// agreement sweep: many (document, query) pairs through the four entry points, in fresh chunk processes

#[derive(Serialize, Deserialize)]
pub struct SweepReq {
    pub seed: u64,
    pub from: u64,
    pub to: u64,
}

#[derive(Serialize, Deserialize, Default)]
pub struct SweepOut {
    pub pairs: u64,
    pub non_empty: u64,
    pub errs: u64,
    pub first: Option<(ColdReq, String)>,
    pub disagreements: u64,
}

pub fn sweep_family(seed: u64, f: u64, out: &mut SweepOut) {
    let mut rng = Rng::new(derive(seed, "c12sweep", f));
    let names: &[&str] = if f % 3 == 2 { gen::NAMES_ADV } else { gen::NAMES_PLAIN };
    let adv_names = f % 3 == 2;
    let p = match f % 11 {
        3 => DocParams { max_nodes: 60 + rng.below(60), max_depth: 2 + rng.below(2), names, max_width: 14, long_arrays: true, mixed_names: adv_names },
        7 => DocParams { max_nodes: 40 + rng.below(40), max_depth: 8 + rng.below(6), names, max_width: 3, long_arrays: false, mixed_names: adv_names },
        _ => DocParams { max_nodes: 6 + rng.below(20), max_depth: 1 + rng.below(4), names, max_width: 5, long_arrays: true, mixed_names: adv_names },
    };
    let mut doc = gen::gen_doc(&mut rng, &p);
    if f % 17 == 4 {
        // under 17-30 levels of plain-named objects
        let levels = 17 + rng.below(14);
        for i in 0..levels {
            doc = json!({ ["a", "b", "c", "k1"][i % 4]: doc, "s": i as i64 });
        }
    }
    // names and strings that differ only in a run of blank space, next to names and strings that end in
    // a backslash or a quote character: a query text that is rewritten before it is parsed (blank space
    // squeezed, literals tracked by hand) selects another member than the same text parsed as it stands
    let blank_family = f % 7 == 3;
    const BLANK_NAMES: &[&str] = &["a\\", "p  q", "p q", "it's", " x", "  x", "q\"", "t\t\tu", "t\tu", "e\\'", "m   n", "m n"];
    if blank_family {
        let mut m = serde_json::Map::new();
        for (i, n) in BLANK_NAMES.iter().enumerate() {
            m.insert(n.to_string(), json!(i as i64));
        }
        let recs: Vec<Value> = (0..6).map(|_| json!({"t": *rng.pick(BLANK_NAMES), "u": *rng.pick(BLANK_NAMES)})).collect();
        m.insert("k".to_string(), Value::Array(recs));
        m.insert("d".to_string(), doc);
        doc = Value::Object(m);
    }
    let mut names_in = vec![];
    gen::names_of(&doc, &mut names_in);
    let g = QGen { names: &names_in, fancy: true, regex: f % 4 == 0, ext: true, safe_quotes: false, reenter: false, unknown_fn: false };
    let repr: u8 = if f % 5 == 4 { 1 + (f % 8) as u8 } else { 0 };
    if sim_repr(repr) {
        simdoc::set_personality(Personality(repr - 1));
    }
    let b = DocBox::new(&doc, sim_repr(repr), 0);
    let before = doc.to_string();
    let all_locs = crate::npath::all_locs(&doc);
    for k in 0..23 {
        let t = rng.weighted(&[3, 4, 3]);
        let mut q = g.query(&mut rng, t);
        if blank_family && k < 14 {
            let mut lit = |rng: &mut Rng| {
                let n = *rng.pick(BLANK_NAMES);
                if rng.chance(1, 2) { gen::quote_single(n) } else { gen::quote_double(n) }
            };
            q = match rng.below(4) {
                0 => format!("$[{}, {}]", lit(&mut rng), lit(&mut rng)),
                1 => format!("$[{},{},  {}]", lit(&mut rng), lit(&mut rng), lit(&mut rng)),
                2 => format!("$.k[?@.t == {} && @.u == {}]", lit(&mut rng), lit(&mut rng)),
                _ => format!("$.k[?@.t == {}  ||  @.u != {}]", lit(&mut rng), lit(&mut rng)),
            };
        }
        if k >= 20 {
            // the path of an existing location, spelled as a plain chain where the names allow
            let loc = rng.pick(&all_locs);
            q = String::from("$");
            for st in loc {
                match st {
                    crate::npath::Step::Name(n) if gen::shorthand_ok(n) => {
                        q.push('.');
                        q.push_str(n);
                    }
                    crate::npath::Step::Name(n) => q.push_str(&format!("[{}]", gen::quote_single(n))),
                    crate::npath::Step::Idx(i) => q.push_str(&format!("[{}]", i)),
                    crate::npath::Step::Big(d) => q.push_str(&format!("[{}]", d)),
                }
            }
            if rng.chance(1, 3) {
                q.push_str(".zz");
            }
        }
        match rng.below(12) {
            0 => q = gen::respell(&mut rng, &q),
            1 => q = gen::twin(&mut rng, &q),
            2 => q = gen::invalidate(&mut rng, &q),
            _ => {}
        }
        let dis = std::panic::catch_unwind(std::panic::AssertUnwindSafe(|| {
            let (mut d, n) = match &b.inner {
                DocInner::V(d) => {
                    let t = obs::triple(d, &b.locs, &q);
                    (t.disagreement(), t.w.as_ref().map(|v| v.len()).ok())
                }
                DocInner::S(d) => {
                    let t = obs::triple(d, &b.locs, &q);
                    (t.disagreement(), t.w.as_ref().map(|v| v.len()).ok())
                }
            };
            if d.is_none() && b.to_json() != before {
                d = Some("the document changed during evaluation".to_string());
            }
            (d, n)
        }));
        out.pairs += 1;
        match dis {
            Ok((d, n)) => {
                match n {
                    Some(k) if k > 0 => out.non_empty += 1,
                    None => out.errs += 1,
                    _ => {}
                }
                if let Some(d) = d {
                    out.disagreements += 1;
                    if out.first.is_none() {
                        out.first = Some((ColdReq { repr, content: doc.to_string(), query: q.clone() }, d));
                    }
                }
            }
            Err(_) => out.errs += 1,
        }
    }
}

/// `sim c12-sweep`
pub fn sweep_main() -> i32 {
    let mut text = String::new();
    std::io::stdin().read_to_string(&mut text).expect("stdin");
    let req: SweepReq = match crate::report::from_json(&text) {
        Ok(p) => p,
        Err(e) => {
            eprintln!("harness error: bad sweep request: {}", e);
            return 2;
        }
    };
    install_panic_hook();
    std::env::set_var("VERIF_QUIET_PANICS", "1");
    let mut out = SweepOut::default();
    for f in req.from..req.to {
        sweep_family(req.seed, f, &mut out);
    }
    println!("{}", serde_json::to_string(&out).unwrap());
    0
}

// ---------------------------------------------------------------------------------------------
// driver side: spawning

fn self_exe() -> std::path::PathBuf {
    std::env::current_exe().expect("current_exe")
}

/// The second build of the simulator: the same sources compiled with debug assertions on (the
/// repository's `debug_assert!`s and `cfg!(debug_assertions)` branches are live in it), if ./check built it.
pub fn dbg_exe() -> Option<std::path::PathBuf> {
    std::env::var("VERIF_SIM_DBG").ok().map(std::path::PathBuf::from).filter(|p| p.exists())
}

pub fn spawn_with_input(args: &[&str], input: &str, timeout_s: u64) -> Result<String, String> {
    spawn_exe_with_input(false, args, input, timeout_s)
}

pub fn spawn_exe_with_input(dbg: bool, args: &[&str], input: &str, timeout_s: u64) -> Result<String, String> {
    let exe = if dbg { dbg_exe().unwrap_or_else(self_exe) } else { self_exe() };
    let mut cmd = Command::new(exe);
    // the clock seam is preloaded into run processes only; the cold oracle reads the real clock
    if args.first() == Some(&"run") {
        if let Ok(p) = std::env::var("VERIF_SIMCLOCK") {
            if std::path::Path::new(&p).exists() {
                cmd.env("LD_PRELOAD", p);
            }
        }
    }
    let mut child = cmd
        .args(args)
        .env("VERIF_QUIET_PANICS", "1")
        .stdin(Stdio::piped())
        .stdout(Stdio::piped())
        .stderr(Stdio::piped())
        .spawn()
        .map_err(|e| format!("spawn: {}", e))?;
    {
        let mut si = child.stdin.take().unwrap();
        si.write_all(input.as_bytes()).map_err(|e| format!("stdin: {}", e))?;
    }
    // watchdog by polling; runs normally finish in milliseconds
    let start = std::time::Instant::now();
    let mut out = String::new();
    let mut so = child.stdout.take().unwrap();
    let reader = std::thread::spawn(move || {
        let mut s = String::new();
        let _ = so.read_to_string(&mut s);
        s
    });
    loop {
        match child.try_wait() {
            Ok(Some(status)) => {
                out = reader.join().unwrap_or_default();
                if !status.success() {
                    let mut err = String::new();
                    if let Some(mut se) = child.stderr.take() {
                        let _ = se.read_to_string(&mut err);
                    }
                    return Err(format!("child exited with {} stderr: {}", status, err.chars().take(2000).collect::<String>()));
                }
                break;
            }
            Ok(None) => {
                if start.elapsed().as_secs() > timeout_s {
                    let _ = child.kill();
                    let _ = child.wait();
                    return Err("timeout".into());
                }
                std::thread::sleep(std::time::Duration::from_micros(300));
            }
            Err(e) => return Err(format!("wait: {}", e)),
        }
    }
    Ok(out)
}

/// Set after three stalled runs: the rest of the batch runs with atomic operations from the start.
static FORCE_ATOMIC: std::sync::atomic::AtomicBool = std::sync::atomic::AtomicBool::new(false);
pub static STALLED_RUNS: std::sync::atomic::AtomicU64 = std::sync::atomic::AtomicU64::new(0);
pub static ALLOC_ABORTS: std::sync::atomic::AtomicU64 = std::sync::atomic::AtomicU64::new(0);

/// The same plan with operations made atomic: switches at operation boundaries only, so that no lock
/// of the system under test can be held by a parked client.
fn atomic_variant(plan: &Plan) -> Plan {
    let mut p = plan.clone();
    p.policy = Policy::RunToCompletion;
    p.schedule = None;
    p
}

fn run_plan_once(plan: &Plan, full: bool, timeout_s: u64) -> Result<RunResult, String> {
    let input = serde_json::to_string(plan).unwrap();
    let args: Vec<&str> = if full { vec!["run", "--full"] } else { vec!["run"] };
    let out = spawn_exe_with_input(plan.dbg_build, &args, &input, timeout_s)?;
    crate::report::from_json::<RunResult>(out.trim()).map_err(|e| format!("bad run output: {} ({})", e, out.chars().take(300).collect::<String>()))
}

/// Err("timeout") only if the run also stalls with atomic operations; Err("crashed: …") if the run
/// process was killed by a signal (twice).
pub fn run_plan(plan: &Plan, full: bool) -> Result<RunResult, String> {
    use std::sync::atomic::Ordering;
    if !plan.alloc_faults.is_empty() {
        // a refused block the system under test cannot do without ends the process (Rust aborts on a
        // failed infallible allocation): a legitimate outcome of the fault. The run is then made again
        // without the fault, so that everything else about it is still checked.
        return match run_plan_inner(plan, full) {
            Ok(r) => Ok(r),
            Err(e) => {
                if e.contains("signal") || e.starts_with("crashed") {
                    ALLOC_ABORTS.fetch_add(1, Ordering::Relaxed);
                }
                let mut p = plan.clone();
                p.alloc_faults.clear();
                run_plan_inner(&p, full)
            }
        };
    }
    run_plan_inner(plan, full)
}

/// The fingerprint of a re-execution for the determinism comparison (`atomic`: the first execution
/// was made with atomic operations after a stall; like is compared with like).
pub fn rerun_fingerprint(plan: &Plan, atomic: bool) -> Result<u64, String> {
    let once = |p: &Plan| -> Result<u64, String> {
        if atomic {
            run_plan_once(&atomic_variant(p), false, 60).map(|r| r.fingerprint)
        } else {
            run_plan_once(p, false, 20).map(|r| r.fingerprint)
        }
    };
    match once(plan) {
        Err(e) if e.contains("signal") && !plan.alloc_faults.is_empty() => {
            let mut p = plan.clone();
            p.alloc_faults.clear();
            once(&p)
        }
        r => r,
    }
}

fn run_plan_inner(plan: &Plan, full: bool) -> Result<RunResult, String> {
    use std::sync::atomic::Ordering;
    if FORCE_ATOMIC.load(Ordering::Relaxed) && plan.schedule.is_none() {
        return run_plan_once(&atomic_variant(plan), full, 60).map(|mut r| {
            r.atomic_variant = true;
            r
        });
    }
    match run_plan_once(plan, full, 20) {
        Ok(r) => Ok(r),
        Err(e) if e == "timeout" => {
            // a client blocked inside the system under test while another held the baton: that is a
            // stall of the simulation, not an observation; re-run with atomic operations
            let n = STALLED_RUNS.fetch_add(1, Ordering::Relaxed) + 1;
            if n >= 3 {
                FORCE_ATOMIC.store(true, Ordering::Relaxed);
            }
            run_plan_once(&atomic_variant(plan), full, 60).map(|mut r| {
                r.atomic_variant = true;
                r
            })
        }
        Err(e) if e.contains("signal") => match run_plan_once(plan, full, 20) {
            Ok(r) => Ok(r),
            Err(e2) if e2.contains("signal") => Err(format!("crashed: {}", e2)),
            Err(e2) => Err(e2),
        },
        Err(e) => Err(e),
    }
}

pub fn run_cold(req: &ColdReq) -> Result<ColdRes, String> {
    let input = serde_json::to_string(req).unwrap();
    let mut last = String::new();
    for _ in 0..2 {
        match spawn_with_input(&["cold"], &input, 30) {
            Ok(out) => return crate::report::from_json::<ColdRes>(out.trim()).map_err(|e| format!("bad cold output: {}", e)),
            Err(e) => last = e,
        }
    }
    Err(last)
}

// ---------------------------------------------------------------------------------------------
// corpus and plan generation

pub struct Corpus {
    pub contents: Vec<String>,
    /// families of contents: a base document, an equal twin is expressed by reusing the index, perturbed copies follow
    pub families: Vec<Vec<usize>>,
    pub queries: Vec<String>,
    /// family -> queries written for it
    pub fam_queries: Vec<Vec<usize>>,
    /// query -> one other family it is also used on
    pub q_other_family: Vec<usize>,
    /// (query, near-twin text of it): pairs a sloppy cache key would confuse
    pub twins: Vec<(usize, usize)>,
}

pub fn gen_corpus(seed: u64, n_fam: usize, q_per_fam: usize) -> Corpus {
    gen_corpus_with(seed, n_fam, q_per_fam, true)
}

/// `adv`: every fourth family uses the adversarial member names (quotes, backslashes, controls).
pub fn gen_corpus_with(seed: u64, n_fam: usize, q_per_fam: usize, adv: bool) -> Corpus {
    let mut contents: Vec<String> = vec![];
    let mut families = vec![];
    let mut queries: Vec<String> = vec![];
    let mut fam_queries = vec![];
    let mut q_other_family = vec![];
    let mut twins: Vec<(usize, usize)> = vec![];
    for f in 0..n_fam {
        let mut rng = Rng::new(derive(seed, "c12doc", f as u64));
        let names: &[&str] = if adv && f % 4 == 3 { gen::NAMES_ADV } else { gen::NAMES_PLAIN };
        let adv_names = adv && f % 4 == 3;
        // size classes: most families are small; some are wide, some big, some deep (still parsable)
        let p = match f % 7 {
            3 => DocParams { max_nodes: 60 + rng.below(60), max_depth: 2 + rng.below(2), names, max_width: 14, long_arrays: true, mixed_names: adv_names },
            5 => DocParams { max_nodes: 40 + rng.below(40), max_depth: 8 + rng.below(6), names, max_width: 3, long_arrays: false, mixed_names: adv_names },
            _ => DocParams { max_nodes: 8 + rng.below(23), max_depth: 1 + rng.below(4), names, max_width: 4, long_arrays: true, mixed_names: adv_names },
        };
        let mut base = gen::gen_doc(&mut rng, &p);
        if adv && n_fam >= 8 && f == 1 {
            // the deep family: values nested deeper than 128 levels (hand-built; serde_json cannot parse
            // them), their small twin, and descendant queries whose results stay small
            let mut fam = vec![];
            for t in ["#deep:140:8", "#deep:133:3", "{\"a\":{\"c\":1},\"b0\":{\"a\":{\"a\":{\"c\":2}}},\"c\":3}", "#records:88000"] {
                contents.push(t.to_string());
                fam.push(contents.len() - 1);
            }
            let mut fq = vec![];
            for q in ["$..c", "$..[?@.c]", "$.b0..c", "$..c[?@>0]", "$.c", "$..b1..c", "$[?@..c]", "$..[?@.c>=0].c", "$.b0.a.a..c", "$..zz", "$.r[5]..x", "$..c"] {
                queries.push(q.to_string());
                fq.push(queries.len() - 1);
                q_other_family.push(f);
            }
            families.push(fam);
            fam_queries.push(fq);
            continue;
        }
        if adv && n_fam >= 8 && f == 3 {
            // the chain family: objects nested 24 deep under plain names, and queries that are long plain
            // chains of names (15 to 24 of them), some ending in a member that does not exist
            let names = ["a", "b", "c", "d", "x", "k1"];
            let build = |leaf: Value| -> Value {
                let mut v = leaf;
                for i in (0..24).rev() {
                    v = json!({ names[i % names.len()]: v, "s": i as i64 });
                }
                v
            };
            let mut fam = vec![];
            for t in [build(json!("leaf")), build(json!(["leaf", 1])), build(json!({"a": "deeper"}))] {
                contents.push(t.to_string());
                fam.push(contents.len() - 1);
            }
            let mut fq = vec![];
            let chain = |n: usize| -> String { (0..n).map(|i| format!(".{}", names[i % names.len()])).collect::<String>() };
            let mut qs: Vec<String> = vec![];
            for n in [3usize, 15, 16, 17, 18, 20, 24] {
                qs.push(format!("${}", chain(n)));
                qs.push(format!("${}.s", chain(n - 1)));
            }
            qs.push(format!("${}.zz", chain(17)));
            qs.push(format!("${}.zz.a", chain(16)));
            qs.push(format!("${}[0]", chain(24)));
            qs.push(format!("${}.a", chain(24)));
            qs.push("$..s".to_string());
            // deeply nested *texts*: parentheses 20, 70 and 130 deep, nested filters and bracketed
            // sub-queries 20 and 66 deep (what a query builder that parenthesises every step emits)
            for n in [20usize, 70, 130] {
                qs.push(format!("$[?{}@.s >= 0{}]", "(".repeat(n), ")".repeat(n)));
                qs.push(format!("$.a[?{}@.s == 1 && @.b{}]", "(".repeat(n), ")".repeat(n)));
            }
            for n in [20usize, 66] {
                qs.push(format!("$[?@{}{}]", "[?@".repeat(n), "]".repeat(n)));
                qs.push(format!("$[?{}@.s{} == 0]", "value(".repeat(n.min(40)), ")".repeat(n.min(40))));
            }
            for q in qs {
                queries.push(q);
                fq.push(queries.len() - 1);
                q_other_family.push(f);
            }
            families.push(fam);
            fam_queries.push(fq);
            continue;
        }
        if adv && n_fam >= 8 && f == 5 {
            // the big-node family: documents that differ in the size of one big node, so that an in-place
            // update turns one into the other while the node keeps its address
            // beyond the sizes at which an implementation might start to remember things about a node:
            // an object of 300 members (and the same with only its first 200), a string of 40 KiB (and
            // one of the same byte length but fewer characters)
            let mk2 = |wide_n: usize, s: &str| -> String {
                let mut wide = serde_json::Map::new();
                for i in 0..wide_n {
                    wide.insert(format!("k{:03}", i), json!(i as i64 % 5));
                }
                json!({"huge": [0, 1, 2, "s1"], "s": s, "t": "ab", "list": ["a", "b", 1], "u": {"s": s}, "wide": wide}).to_string()
            };
            let ascii40k = "abcdefgh".repeat(5120);
            let multi40k = format!("{}{}", "é".repeat(10240), "abcdefgh".repeat(2560));
            let mut fam = vec![];
            // and a string beyond 64 KiB, the subject of regex filters
            let ascii70k = "abcdefgh".repeat(8960);
            for t in [mk2(300, "ab"), mk2(200, "ab"), mk2(20, &ascii40k), mk2(20, &multi40k), mk2(20, &ascii70k)] {
                contents.push(t);
                fam.push(contents.len() - 1);
            }
            let mut fq = vec![];
            for q in ["$[?length(@) > 250]", "$..[?length(@) >= 200]", "$[?length(@) > 30000]", "$.u[?length(@) == 40960]", "$[?length(@) == 300 || length(@) == 40960]", "$[?length(@) == 200]", "$.wide.k250", "$.wide[?@ == 3]", "$.s", "$[?search(@, 'gh$')]", "$[?match(@, '(abcdefgh)+')]", "$.u[?search(@, 'hab')]", "$[?search(@, 'é')]", "$[?match(@, 'ab')]"] {
                queries.push(q.to_string());
                fq.push(queries.len() - 1);
                q_other_family.push(f);
            }
            families.push(fam);
            fam_queries.push(fq);
            continue;
        }
        if adv && n_fam >= 8 && f == 2 {
            // the huge family: arrays beyond the thresholds at which an implementation might switch
            // strategy (128, 512, 1024 elements) and strings of 32+ bytes whose byte length is equal
            // but whose character count is not
            let mut fam = vec![];
            let mk = |n: usize, s: &str, t: &str| -> String {
                let huge: Vec<Value> = (0..n).map(|i| if i % 97 == 5 { json!(format!("s{}", i % 3)) } else { json!((i % 7) as i64) }).collect();
                let mut wide = serde_json::Map::new();
                for i in 0..(n / 8).min(90) {
                    wide.insert(format!("k{}", i), json!(i as i64 % 5));
                }
                wide.insert("n".repeat(300), json!("long name"));
                json!({"huge": huge, "s": s, "t": t, "list": ["a", "b", 1], "u": {"s": t}, "wide": wide}).to_string()
            };
            let e20 = "é".repeat(20);
            let ab20 = "ab".repeat(20);
            let j14 = "日本".repeat(7);
            let big5k = format!("{}tail", "lorem ipsum ".repeat(420));
            let big12k = format!("head{}", "x-y ".repeat(3000));
            for t in [mk(600, &e20, &ab20), mk(1100, &ab20, &e20), mk(130, &j14, &format!("{}xx", "ж".repeat(20))), mk(20, &big5k, "ab"), mk(20, &big12k, &big5k), mk(12500, "Aa", "BB")] {
                contents.push(t);
                fam.push(contents.len() - 1);
            }
            let mut fq = vec![];
            for q in ["$.huge[?@ > 3]", "$.huge[?@ == 0]", "$.huge[::50]", "$.huge[-1]", "$.huge[512]", "$.huge[?@ == 's1']", "$[?length(@) == 20]", "$[?length(@) > 30]", "$..[?length(@) == 40]",
                      "$[?length(@.s) == 40]", "$.u[?length(@) <= 22]", "$.huge[100:140]", "$.huge[?match(@, 's.')]", "$..s", "$[?count(@.huge[*]) > 512]", "$.wide.*", "$.wide[?@ == 3]", "$.wide.k64", "$.wide['k1','k70','k2']", "$.wide..*", "$[?count(@.*) > 64]", "$[?search(@, 'tail')]", "$[?match(@, 'ab')]", "$..[?search(@, 'a')]", "$[?match(@.s, 'ab')]", "$[?length(@) > 4096]", "$.u[?search(@, 'ipsum')]", "$.huge[10500]", "$.huge[-1]", "$.huge[10000:10003]", "$.huge[12344,11000,9999]", "$.huge[?@ == 's2'][0]", "$[?match(@, 'Aa')]", "$[?match(@, 'BB')]", "$..[?search(@, 'Aa')]", "$..[?search(@, 'BB')]"] {
                queries.push(q.to_string());
                fq.push(queries.len() - 1);
                q_other_family.push(f);
            }
            // huge query texts: tens of kilobytes (parser limits, text-keyed tables, buffers sized by the query)
            let big_union = format!("$.wide[{}]", (0..3000).map(|i| format!("'k{}'", i)).collect::<Vec<_>>().join(","));
            let big_or = format!("$.huge[?{}]", (0..700).map(|i| format!("@=={}", i % 9)).collect::<Vec<_>>().join("||"));
            let big_chain = format!("$.wide{}", "['k1']".repeat(400));
            // texts beyond 64 KiB, and one that costs the parser more than half a million rule calls
            let big_union2 = format!("$.wide[{}]", (0..6500).map(|i| format!("'name{}'", i)).collect::<Vec<_>>().join(","));
            let big_or2 = format!("$.list[?{}]", (0..4700).map(|i| format!("@.id=={}", 100 + i % 900)).collect::<Vec<_>>().join("||"));
            for q in [big_union, big_or, big_chain, big_union2, big_or2] {
                queries.push(q);
                fq.push(queries.len() - 1);
                q_other_family.push(f);
            }
            families.push(fam);
            fam_queries.push(fq);
            continue;
        }
        let special = f % 2 == 0;
        if special {
            // the shape the extension functions, regex filters and root-dependent filters are selective on
            base = json!({"elems": [gen::scalar(&mut rng), "a", "ab", ["a", "b"], ["x"], {"a": "xay", "b": 1, "re": "x.y"}, 2, 0], "list": ["a", "b", 1], "x": {"a": "ab", "b": [1, 2, 3]}, "e": [[], {}, [[]], {"a": {}}], "a": base,
                "flag": rng.chance(1, 2), "lim": rng.range(0, 2), "re": *rng.pick(gen::PATTERNS),
                "long": (0..*rng.pick(&[9i64, 12, 17, 33, 40])).collect::<Vec<i64>>(),
                "names": ["d", "a", "c", "b", "z", "k", "e", "aa", "ab", "xay"],
                "codes": ["Aa", "BB", "AaBB", "BBAa", "aA"]});
        }
        let mut fam = vec![];
        let mut push = |v: &Value, contents: &mut Vec<String>| -> usize {
            let t = v.to_string();
            if let Some(i) = contents.iter().position(|c| *c == t) {
                i
            } else {
                contents.push(t);
                contents.len() - 1
            }
        };
        fam.push(push(&base, &mut contents));
        let n_pert = 1 + rng.below(2);
        let mut pert_kinds: Vec<usize> = vec![];
        for _ in 0..n_pert {
            let mut pv = if special && rng.chance(2, 3) { base.clone() } else { gen::perturb_leaf(&mut rng, &base) };
            if special && pv == base {
                // differ in exactly one of the top-level members that root-dependent atoms read; the
                // special families take the four members in turn, so that a corpus of a few families
                // has every one of them (the draw only decides the order of the others)
                let kind = if pert_kinds.is_empty() { (f / 2) % 4 } else { rng.below(4) };
                pert_kinds.push(kind);
                match kind {
                    0 => pv["flag"] = json!(!base["flag"].as_bool().unwrap_or(false)),
                    1 => pv["lim"] = json!(base["lim"].as_i64().unwrap_or(0) + 1 + rng.below(2) as i64),
                    2 => {
                        let mut p = *rng.pick(gen::PATTERNS);
                        while Some(p) == base["re"].as_str() {
                            p = *rng.pick(gen::PATTERNS);
                        }
                        pv["re"] = json!(p);
                    }
                    _ => pv["list"] = json!(["a", "b", 1, 2]),
                }
            }
            fam.push(push(&pv, &mut contents));
        }
        let mut names_in = vec![];
        gen::names_of(&base, &mut names_in);
        let mut fq = vec![];
        let mut qrng = Rng::new(derive(seed, "c12query", f as u64));
        let g = QGen { names: &names_in, fancy: true, regex: true, ext: true, safe_quotes: false, reenter: adv, unknown_fn: true };
        let mut k = 0;
        while fq.len() < q_per_fam && k < q_per_fam * 4 {
            k += 1;
            let tier = qrng.weighted(&[3, 4, 3]);
            let q = match qrng.weighted(&[10, 2, 4, 2, if special { 8 } else { 0 }, if special { 4 } else { 0 }]) {
                0 => g.query(&mut qrng, tier),
                1 => {
                    // match / search twins with the same pattern
                    let pat = *qrng.pick(gen::PATTERNS);
                    let a = g.regex_fn(&mut Rng::new(k as u64 ^ seed), "match", pat);
                    let b = a.replacen("match", "search", 1);
                    let pre = if qrng.chance(1, 2) { "$..*" } else { "$.*" };
                    let qa = format!("{}[?{}]", pre, a);
                    let qb = format!("{}[?{}]", pre, b);
                    if !queries.contains(&qb) {
                        queries.push(qb);
                        fq.push(queries.len() - 1);
                        q_other_family.push(qrng.below(n_fam));
                    }
                    qa
                }
                2 => {
                    if fq.is_empty() {
                        g.query(&mut qrng, tier)
                    } else {
                        let bi = *qrng.pick(&fq);
                        let base_q = queries[bi].clone();
                        let t = if qrng.chance(1, 3) { gen::respell(&mut qrng, &base_q) } else { gen::twin(&mut qrng, &base_q) };
                        if !queries.contains(&t) {
                            twins.push((bi, queries.len()));
                        }
                        t
                    }
                }
                3 => {
                    let base_q = g.query(&mut qrng, tier);
                    gen::invalidate(&mut qrng, &base_q)
                }
                4 => g.root_dependent(&mut qrng),
                _ => g.index_jump(&mut qrng),
            };
            if queries.contains(&q) {
                continue;
            }
            queries.push(q);
            fq.push(queries.len() - 1);
            q_other_family.push(qrng.below(n_fam));
        }
        if special {
            // anchors: for every root member this family's documents differ in, one query whose result
            // depends on that member and on nothing else of the root (so the corpus never lacks the
            // pair "documents that differ in $.re" + "a query that reads $.re", whatever the draws were)
            for kind in &pert_kinds {
                let anchors: Vec<String> = match kind {
                    0 => vec!["$.elems[?$.flag == true]".into()],
                    1 => vec!["$.long[?@ > $.lim]".into()],
                    2 => vec!["$.elems[?match(@, $.re)]".into(), "$.elems[?search(@, $.re)]".into(), "$.elems[*][?search(@, $.re)]".into()],
                    _ => vec!["$.elems[?length($.list) == 3]".into()],
                };
                for q in anchors {
                    if !queries.contains(&q) {
                        queries.push(q);
                        fq.push(queries.len() - 1);
                        q_other_family.push(f);
                    } else if let Some(qi) = queries.iter().position(|x| *x == q) {
                        if !fq.contains(&qi) {
                            fq.push(qi);
                        }
                    }
                }
            }
            // one query whose pattern is not a regular expression (the error path of match/search)
            {
                let bad = ["(", "[a", "*a", "a{2,1}"][(f / 2) % 4];
                let q = format!("$.elems[?{}(@, '{}')]", if f % 4 == 0 { "match" } else { "search" }, bad);
                if !queries.contains(&q) {
                    queries.push(q);
                    fq.push(queries.len() - 1);
                    q_other_family.push(f);
                }
            }
            // pattern pairs of equal length and equal h*31+c hash, over strings that tell them apart
            let f0 = if qrng.chance(1, 2) { "match" } else { "search" };
            let (pa, pb) = if qrng.chance(1, 2) { ("Aa", "BB") } else { ("AaBB", "BBAa") };
            for pat in [pa, pb] {
                let q = format!("$.codes[?{}(@, '{}')]", f0, pat);
                if !queries.contains(&q) {
                    queries.push(q);
                    fq.push(queries.len() - 1);
                    q_other_family.push(qrng.below(n_fam));
                }
            }
            let (ia, ib) = (queries.len() - 2, queries.len() - 1);
            twins.push((ia, ib));
        }
        families.push(fam);
        fam_queries.push(fq);
    }
    Corpus { contents, families, queries, fam_queries, q_other_family, twins }
}

pub struct PlanMeta {
    /// (repr, corpus content idx, corpus query idx) this plan can touch
    pub keys: Vec<(u8, usize, usize)>,
    /// plan content idx -> corpus content idx; plan query idx -> corpus query idx
    pub content_map: Vec<usize>,
    pub query_map: Vec<usize>,
    /// (plan content idx, plan query idx) of a few filler keys to be computed cold as a check
    pub filler_sample: Vec<(usize, usize)>,
}

pub fn gen_plan(c: &Corpus, run_seed: u64) -> (Plan, PlanMeta) {
    gen_plan_opt(c, run_seed, true)
}

pub fn gen_plan_opt(c: &Corpus, run_seed: u64, allow_stress: bool) -> (Plan, PlanMeta) {
    let mut rng = Rng::new(run_seed);
    // 3 % of the runs are long-lived processes: hundreds of operations over hundreds of distinct query
    // texts and member names, so that bounded tables and LRUs fill up and wrap while clients interleave
    let stress = rng.chance(3, 100) && allow_stress;
    let repr_draw: u8 = if stress { rng.below(2) as u8 } else if rng.chance(7, 10) { 0 } else { 1 + rng.below(8) as u8 };
    // themed runs: shapes that need several ingredients at once and that uniform draws assemble too
    // rarely for a few thousand runs (both were once caught "by one run in 2 000" and then lost)
    //   1: deep duel — 2-3 clients walk deeply nested documents with `..` and hand over at every node
    //   2: regex crowd — 9-12 clients gathered inside match/search
    //   3: huge texts — one or two clients go through the query texts of tens of kilobytes
    //   4: big-node edits — one client alternates in-place updates of a document with one very big
    //      node and `length()` queries over it
    let theme: u8 = if stress { 0 } else { match rng.below(200) { 0..=2 => 1, 3..=6 => 2, 7..=8 => 3, 9..=11 => 4, _ => 0 } };
    let bignode_fam = (0..c.families.len()).find(|f| c.fam_queries[*f].iter().any(|q| c.queries[*q] == "$[?length(@) > 250]"));
    let theme = if theme == 4 && bignode_fam.is_none() { 0 } else { theme };
    let huge_fam = (0..c.families.len()).find(|f| c.fam_queries[*f].iter().any(|q| c.queries[*q].len() > 60_000));
    let theme = if theme == 3 && huge_fam.is_none() { 0 } else { theme };
    let deep_fam = (0..c.families.len()).find(|f| c.contents[c.families[*f][0]].starts_with("#deep"));
    let theme = if theme == 1 && deep_fam.is_none() { 0 } else { theme };
    // in-place updates exist for Value documents only
    let repr: u8 = if theme == 4 { 0 } else { repr_draw };
    let n_slots = if theme == 4 { 1 } else if theme == 1 { 1 + rng.below(2) } else { 1 + rng.below(4) };
    let mut content_map: Vec<usize> = vec![];
    let mut slots: Vec<Vec<usize>> = vec![];
    let mut fams_used: Vec<usize> = vec![];
    let local_content = |ci: usize, content_map: &mut Vec<usize>| -> usize {
        if let Some(i) = content_map.iter().position(|x| *x == ci) {
            i
        } else {
            content_map.push(ci);
            content_map.len() - 1
        }
    };
    for s in 0..n_slots {
        // a later slot often repeats an earlier family: equal or nearly equal documents live together
        let mut f = if theme == 1 {
            deep_fam.unwrap()
        } else if theme == 3 {
            huge_fam.unwrap()
        } else if theme == 4 {
            bignode_fam.unwrap()
        } else if theme == 2 && s == 0 {
            // the special families (even indexes) hold the regex queries
            2 * rng.below((c.families.len() + 1) / 2)
        } else if s > 0 && rng.chance(1, 2) { *rng.pick(&fams_used) } else if stress { *rng.pick(&[0usize, 4 % c.families.len(), 6 % c.families.len()]) } else { rng.below(c.families.len()) };
        // the deep family is expensive: take it one time in three of what a uniform draw would
        if theme == 0 && (c.contents[c.families[f][0]].starts_with("#") || c.contents[c.families[f][0]].len() > 1500) && !fams_used.contains(&f) && rng.chance(2, 3) {
            f = rng.below(c.families.len());
        }
        if !fams_used.contains(&f) {
            fams_used.push(f);
        }
        let fam = &c.families[f];
        let n_c = 1 + rng.below(3);
        let mut cs = vec![];
        for i in 0..n_c {
            let mut ci = if i == 0 && rng.chance(1, 2) { fam[0] } else { *rng.pick(fam) };
            if theme == 1 && c.contents[ci].starts_with("#records") {
                // a duel hands over at every node: not over 300 000 of them
                ci = fam[0];
            }
            cs.push(local_content(ci, &mut content_map));
        }
        if theme == 4 && fam.len() >= 4 {
            // the two documents of a pair differ in the size of their one big node
            let pair = if rng.chance(1, 2) { [fam[0], fam[1]] } else { [fam[2], fam[3]] };
            cs = pair.iter().map(|ci| local_content(*ci, &mut content_map)).collect();
        }
        slots.push(cs);
    }
    // queries: mostly those written for the families in play, some from their "other family" set
    let mut query_map: Vec<usize> = vec![];
    let n_q = 2 + rng.below(11);
    let mut pool: Vec<usize> = vec![];
    for f in &fams_used {
        pool.extend(c.fam_queries[*f].iter().copied());
    }
    for (qi, of) in c.q_other_family.iter().enumerate() {
        if fams_used.contains(of) && !pool.contains(&qi) {
            pool.push(qi);
        }
    }
    if theme == 3 {
        // every one of the huge texts takes part
        for qi in &pool {
            if c.queries[*qi].len() > 15_000 && !query_map.contains(qi) {
                query_map.push(*qi);
            }
        }
    }
    let n_q = n_q.max(query_map.len() + 2);
    let mut guard = 0;
    while query_map.len() < n_q && guard < 100 {
        guard += 1;
        let qi = *rng.pick(&pool);
        if !query_map.contains(&qi) {
            query_map.push(qi);
            // bring near-twin texts along
            for (a, b) in &c.twins {
                let other = if *a == qi { Some(*b) } else if *b == qi { Some(*a) } else { None };
                if let Some(o) = other {
                    if pool.contains(&o) && !query_map.contains(&o) && rng.chance(3, 4) {
                        query_map.push(o);
                    }
                }
            }
            // bring the match/search twin along when there is one
            let q = &c.queries[qi];
            let twin = if q.contains("?match(") { Some(q.replacen("?match(", "?search(", 1)) } else if q.contains("?search(") { Some(q.replacen("?search(", "?match(", 1)) } else { None };
            if let Some(t) = twin {
                if let Some(ti) = c.queries.iter().position(|x| *x == t) {
                    if pool.contains(&ti) && !query_map.contains(&ti) {
                        query_map.push(ti);
                    }
                }
            }
        }
    }
    let n_normal_q = query_map.len();
    let mut filler_texts: Vec<String> = vec![];
    if stress {
        let n_fill = 600 + rng.below(900);
        for i in 0..n_fill {
            let name = format!("zz{}_{}", run_seed % 1000, i);
            filler_texts.push(match rng.below(5) {
                0 => format!("$.{}", name),
                1 => format!("$..{}", name),
                2 => format!("$[*].{}", name),
                3 => format!("$..[?@.{}]", name),
                _ => format!("$.*['{}']", name),
            });
        }
    }
    let n_all_q = n_normal_q + filler_texts.len();
    let n_qslots = 1 + rng.below(4);
    let qslots: Vec<usize> = (0..n_qslots).map(|_| rng.below(n_normal_q)).collect();
    // which (query, slot) pairs are allowed: the query's own families
    let slot_ok = |q_local: usize, d: usize| -> bool {
        if q_local >= n_normal_q {
            return true;
        }
        let qi = query_map[q_local];
        let fam_of_slot = c.families.iter().position(|fam| fam.contains(&content_map[slots[d][0]])).unwrap_or(0);
        c.fam_queries[fam_of_slot].contains(&qi) || c.q_other_family[qi] == fam_of_slot
    };
    // a run that holds the multi-megabyte document is kept short: each descendant walk over it costs 0.1 s
    let has_records = content_map.iter().any(|ci| c.contents[*ci].starts_with("#records"));
    // 2 % of the runs are crowds: 9-12 caller threads with a few operations each (limits on how many
    // callers may be inside some part of the library at once)
    let crowd = !stress && !has_records && theme != 1 && (rng.chance(2, 100) || theme == 2);
    // the site a crowd gathers at is drawn before its operations are: they should be able to reach it
    let crowd_site: u32 = if theme == 2 { *rng.pick(&[8u32, 9]) } else { *rng.pick(&[8u32, 9, 8, 10, 6, 5, 12, 2]) };
    let n_clients = match if crowd { 4 + rng.below(4) } else if stress { 1 + rng.below(2) } else { rng.weighted(&[2, 3, 3, 2]) } {
        _ if has_records => 1 + rng.below(2),
        _ if theme == 1 => 2 + rng.below(2),
        _ if theme == 3 => 1 + rng.below(2),
        _ if theme == 4 => 1,
        4 => 9,
        5 => 10,
        6 => 11,
        7 => 12,
        0 => 1,
        1 => 2,
        2 => 3,
        _ => 4,
    };
    let w_swap = if theme == 4 { 8 } else { rng.below(3) as u32 };
    let w_clone_doc = rng.below(2) as u32;
    let w_parse = 1 + rng.below(3) as u32;
    let w_e = 2 + rng.below(4) as u32;
    let w_ref = rng.below(2) as u32;
    // one run in six edits stored parsed queries through their public field
    let w_edit = if !stress && rng.chance(1, 6) { 1u32 } else { 0 };
    let mut clients = vec![];
    for _ in 0..n_clients {
        let n_ops = if stress { 400 + rng.below(500) } else if crowd { 2 + rng.below(5) } else if theme == 1 { 2 + rng.below(3) } else if theme == 3 { 4 + rng.below(8) } else if theme == 4 { 8 + rng.below(10) } else if has_records { 3 + rng.below(6) } else { 3 + rng.below(38) };
        // themed runs draw their queries from the ones that reach the theme's site
        let themed_q: Vec<usize> = (0..n_normal_q)
            .filter(|q| {
                let t = &c.queries[query_map[*q]];
                match theme {
                    1 => t.contains(".."),
                    2 => t.contains("match(") || t.contains("search("),
                    3 => t.len() > 15_000,
                    4 => t.contains("length("),
                    _ => false,
                }
            })
            .collect();
        let mut ops = vec![];
        let mut guard = 0;
        while ops.len() < n_ops && guard < 8000 {
            guard += 1;
            let d = rng.below(n_slots);
            // in a long-lived run two operations in three take the next fresh filler text
            let q = if stress && rng.chance(2, 3) { n_normal_q + rng.below(n_all_q - n_normal_q) } else if !themed_q.is_empty() && rng.chance(4, 5) { *rng.pick(&themed_q) } else { rng.below(n_normal_q) };
            let s = rng.below(n_qslots);
            let op = match rng.weighted(&[5, 4, 5, w_parse, w_e, 1, w_ref, w_swap, w_clone_doc, w_edit, if has_records || stress { 0 } else { w_ref }]) {
                0 => Op::Q { q, d },
                1 => Op::P { q, d },
                2 => Op::W { q, d },
                3 => Op::Parse { s },
                4 => Op::E { s, d },
                5 => {
                    let same: Vec<usize> = (0..n_qslots).filter(|t| qslots[*t] == qslots[s]).collect();
                    Op::CloneQ { s, t: *rng.pick(&same) }
                }
                6 => Op::Ref { q, d },
                7 => {
                    if rng.chance(1, 2) {
                        Op::EditDoc { d, k: rng.below(slots[d].len()) }
                    } else {
                        Op::Swap { d, k: rng.below(slots[d].len()) }
                    }
                }
                9 => Op::EditQ { s, q: rng.below(n_normal_q) },
                10 => Op::RefMut { q, d },
                _ => Op::CloneDoc { d },
            };
            let ok = match &op {
                Op::Q { q, d } | Op::P { q, d } | Op::W { q, d } | Op::Ref { q, d } | Op::RefMut { q, d } => slot_ok(*q, *d),
                Op::E { s, d } => slot_ok(qslots[*s], *d),
                // an edited slot may be evaluated on any document of the run
                Op::EditQ { q, .. } => (0..n_slots).all(|d| slot_ok(*q, d)),
                _ => true,
            };
            if ok {
                ops.push(op);
            }
        }
        if ops.is_empty() {
            ops.push(Op::Parse { s: 0 });
        }
        clients.push(ops);
    }
    let policy = if n_clients == 1 {
        Policy::RunToCompletion
    } else if crowd && (theme == 2 || rng.chance(2, 3)) {
        Policy::Barrier { site: crowd_site }
    } else if theme == 1 {
        Policy::Random { p: 300 + rng.below(600) as u32 }
    } else {
        match rng.weighted(&[3, 10, 5]) {
            0 => Policy::RunToCompletion,
            // long-lived runs have tens of thousands of schedule points: switch rarely, or each costs seconds
            1 => Policy::Random { p: if stress { 3 + rng.below(40) as u32 } else { 20 + rng.below(581) as u32 } },
            _ => {
                let d = 1 + rng.below(3);
                Policy::Pct { changes: (0..d).map(|_| 1 + rng.below(1500) as u64).collect() }
            }
        }
    };
    // site mask: op boundaries always; hook sites and seam accessors a random subset per run
    let mut site_mask: u64 = (1u64 << sched::SITE_OP_BEGIN) | (1u64 << sched::SITE_OP_END);
    let hook_mode = rng.weighted(&[3, 6, 1]);
    for s in 0..13u32 {
        let on = match hook_mode {
            0 => true,
            1 => rng.chance(7, 10),
            _ => false,
        };
        if on {
            site_mask |= 1u64 << s;
        }
    }
    for a in 0..simdoc::N_ACC as u32 {
        if rng.chance(8, 10) {
            site_mask |= 1u64 << (simdoc::SEAM_BASE + a);
        }
    }
    let mut faults = vec![];
    let qslots_ref = qslots.clone();
    if rng.chance(4, 10) {
        let n_f = 1 + rng.below(3);
        for _ in 0..n_f {
            let cl = rng.below(n_clients);
            let candidates: Vec<usize> = clients[cl].iter().enumerate().filter(|(_, o)| !matches!(o, Op::Swap { .. } | Op::EditDoc { .. } | Op::CloneDoc { .. } | Op::CloneQ { .. })).map(|(i, _)| i).collect();
            if candidates.is_empty() {
                continue;
            }
            let mut op = *rng.pick(&candidates);
            // half of the aborts aim at a named site (the places where shared state would be live),
            // inside an operation whose query can reach that site
            let (nth, site) = if rng.chance(1, 2) {
                let targets: [u32; 9] = [8, 9, 8, 9, 10, 6, 7, 5, 12];
                let site = *rng.pick(&targets);
                let needles: &[&str] = match site {
                    8 | 9 => &["match(", "search("],
                    10 => &["in(", "_of("],
                    6 => &["?"],
                    7 => &["==", "!=", "<", ">"],
                    12 => &["[", "."],
                    _ => &[".."],
                };
                let query_of = |o: &Op| -> Option<usize> {
                    match o {
                        Op::Q { q, .. } | Op::P { q, .. } | Op::W { q, .. } => Some(*q),
                        Op::E { s, .. } => Some(qslots_ref[*s]),
                        _ => None,
                    }
                };
                let fitting: Vec<usize> = candidates.iter().copied().filter(|i| query_of(&clients[cl][*i]).map(|q| q < n_normal_q && needles.iter().any(|n| c.queries[query_map[q]].contains(n))).unwrap_or(false)).collect();
                if !fitting.is_empty() {
                    op = *rng.pick(&fitting);
                }
                (rng.below(3) as u32, Some(site))
            } else if rng.chance(1, 2) {
                (rng.below(4) as u32, None)
            } else {
                (rng.below(40) as u32, None)
            };
            if !faults.iter().any(|f: &Fault| f.c == cl && f.op == op) {
                faults.push(Fault { c: cl, op, nth, site });
            }
        }
    }
    for f in &faults {
        if let Some(s) = f.site {
            site_mask |= 1u64 << s;
        }
    }
    // a multi-megabyte document has hundreds of thousands of nodes: no per-node schedule points at all
    if content_map.iter().any(|ci| c.contents[*ci].starts_with("#records") || c.contents[*ci].len() > 10_000) {
        for s in [3u32, 4, 5, 6, 12] {
            site_mask &= !(1u64 << s);
        }
        for a in 0..simdoc::N_ACC as u32 {
            site_mask &= !(1u64 << (simdoc::SEAM_BASE + a));
        }
    }
    if let Policy::Barrier { site } = &policy {
        site_mask |= 1u64 << site;
    }
    // a deep document has a thousand nodes on one path: mostly keep the per-node schedule points off
    let has_deep = content_map.iter().any(|ci| c.contents[*ci].starts_with("#") || c.contents[*ci].len() > 1500);
    if has_deep && theme != 1 && rng.chance(9, 10) {
        for s in [3u32, 4, 5, 6, 12] {
            site_mask &= !(1u64 << s);
        }
    }
    if theme == 1 {
        // a deep duel hands over at every node of the descent, and nowhere else inside an operation
        site_mask |= 1u64 << 5;
        for s in [3u32, 4, 6, 12] {
            site_mask &= !(1u64 << s);
        }
    }
    let thread_per_op = rng.chance(1, 8);
    // one run in seven sees its clock jump (seconds to a year) at a few schedule points inside operations
    let mut clock_jumps: Vec<Jump> = vec![];
    if rng.chance(1, 7) {
        for _ in 0..(1 + rng.below(3)) {
            let cl = rng.below(n_clients);
            let j = rng.below(clients[cl].len());
            clock_jumps.push(Jump { c: cl, op: j, nth: rng.below(12) as u32, secs: *rng.pick(&[1u64, 6, 10, 61, 3600, 86_400, 31_536_000]) });
        }
    }
    // one run in ten makes a few calls from deep inside the caller's own stack (0.25 - 3 MiB down)
    let mut deep_stack = vec![];
    if rng.chance(1, 10) {
        for _ in 0..(1 + rng.below(4)) {
            let cl = rng.below(n_clients);
            let j = rng.below(clients[cl].len());
            deep_stack.push((cl, j, *rng.pick(&[256usize, 1200, 1600, 3000])));
        }
    }
    // one run in five makes some calls over small documents with little stack left (64-512 KiB)
    // a parsed-query slot may stand for another (deeply nested) text once an EditQ has run: then an
    // evaluation through a slot is not known to be light
    let any_edit = clients.iter().flatten().any(|o| matches!(o, Op::EditQ { .. }));
    let light = |cl: usize, j: usize| -> bool {
        let (q, d) = match &clients[cl][j] {
            Op::Q { q, d } | Op::P { q, d } | Op::W { q, d } | Op::Ref { q, d } => (*q, *d),
            Op::E { s, d } if !any_edit => (qslots_ref[*s], *d),
            _ => return false,
        };
        // short and flat: a deeply parenthesised text of 150 bytes recurses 70 levels deep in the parser
        let flat = |t: &str| -> bool {
            let (mut d, mut m) = (0i32, 0i32);
            for ch in t.chars() {
                if ch == '(' || ch == '[' {
                    d += 1;
                    m = m.max(d);
                } else if ch == ')' || ch == ']' {
                    d -= 1;
                }
            }
            m <= 6
        };
        let q_ok = if q < n_normal_q { c.queries[query_map[q]].len() <= 160 && flat(&c.queries[query_map[q]]) } else { true };
        q_ok && slots[d].iter().all(|ci| { let t = &c.contents[content_map[*ci]]; !t.starts_with('#') && t.len() <= 2500 })
    };
    if let Some(kib) = std::env::var("VERIF_C12_LOWSTACK").ok().and_then(|v| v.parse::<usize>().ok()) {
        // measurement switch: every light operation of every run with this much stack left
        for cl in 0..n_clients {
            for j in 0..clients[cl].len() {
                if light(cl, j) && !deep_stack.iter().any(|(a, b, _)| *a == cl && *b == j) {
                    deep_stack.push((cl, j, LOW_STACK + kib));
                }
            }
        }
    } else if !stress && rng.chance(1, 5) {
        let walks = |cl: usize, j: usize| -> bool {
            match &clients[cl][j] {
                Op::Q { q, .. } | Op::P { q, .. } | Op::W { q, .. } => *q < n_normal_q && c.queries[query_map[*q]].contains(".."),
                Op::E { s, .. } => c.queries[query_map[qslots_ref[*s]]].contains(".."),
                _ => false,
            }
        };
        if rng.chance(1, 3) {
            // a caller that lives on a small stack: every light walking operation of one client
            let cl = rng.below(n_clients);
            let kib = *rng.pick(&[64usize, 112]);
            for j in 0..clients[cl].len() {
                if light(cl, j) && walks(cl, j) {
                    deep_stack.push((cl, j, LOW_STACK + kib));
                }
            }
        }
        for _ in 0..(2 + rng.below(6)) {
            let cl = rng.below(n_clients);
            // three draws in four look for a light operation that walks (`..`): recursion is where the
            // remaining stack matters
            let cands: Vec<usize> = (0..clients[cl].len()).filter(|j| light(cl, *j) && walks(cl, *j)).collect();
            let j = if !cands.is_empty() && rng.chance(3, 4) { *rng.pick(&cands) } else { rng.below(clients[cl].len()) };
            if light(cl, j) && !deep_stack.iter().any(|(a, b, _)| *a == cl && *b == j) {
                deep_stack.push((cl, j, LOW_STACK + *rng.pick(&[64usize, 64, 112, 112, 160, 256, 512])));
            }
        }
    }
    // one run in ten: allocation failure inside one to three operations, preferably ones that filter
    // (a filter is where an implementation is tempted to size a buffer by the number of children)
    let mut alloc_faults = vec![];
    if !stress && !has_records && rng.chance(1, 10) {
        let query_text = |o: &Op| -> Option<&String> {
            match o {
                Op::Q { q, .. } | Op::P { q, .. } | Op::W { q, .. } => Some(&c.queries[query_map[*q]]),
                Op::E { s, .. } => Some(&c.queries[query_map[qslots_ref[*s]]]),
                _ => None,
            }
        };
        for _ in 0..(1 + rng.below(5)) {
            let cl = rng.below(n_clients);
            let all: Vec<usize> = (0..clients[cl].len()).filter(|j| query_text(&clients[cl][*j]).is_some()).collect();
            if all.is_empty() {
                continue;
            }
            let filtering: Vec<usize> = all.iter().copied().filter(|j| query_text(&clients[cl][*j]).map(|t| t.contains('?')).unwrap_or(false)).collect();
            let j = if !filtering.is_empty() && rng.chance(3, 4) { *rng.pick(&filtering) } else { *rng.pick(&all) };
            if !alloc_faults.iter().any(|(a, b, _): &(usize, usize, usize)| *a == cl && *b == j) {
                // a string entry point parses inside the call (the parser's token queue alone takes a few
                // KiB): smaller limits only make sense for evaluations of a parsed query
                let bytes = if matches!(clients[cl][j], Op::E { .. }) { *rng.pick(&[256usize, 512, 1 << 10, 2 << 10, 4 << 10, 16 << 10, 64 << 10]) } else { *rng.pick(&[4usize << 10, 16 << 10, 64 << 10, 256 << 10, 1 << 20]) };
                alloc_faults.push((cl, j, bytes));
            }
        }
    }
    // one run in eight keeps the results of a few evaluations and looks at them later / elsewhere
    let mut held: Vec<(usize, usize, u8)> = vec![];
    if !has_records && rng.chance(1, 8) {
        for _ in 0..(1 + rng.below(4)) {
            let cl = rng.below(n_clients);
            let j = rng.below(clients[cl].len());
            if matches!(clients[cl][j], Op::W { .. } | Op::E { .. }) && !held.iter().any(|(a, b, _)| *a == cl && *b == j) {
                held.push((cl, j, rng.below(3) as u8));
            }
        }
    }
    // one stubbed-store run in two (with two or more slots) holds `Value` documents in some of its slots: two Queryable types in
    // one process, evaluated in whatever order the schedule brings
    let mut value_slots: Vec<usize> = vec![];
    if repr > 0 && n_slots >= 2 && !stress && rng.chance(1, 2) {
        for d in 0..n_slots {
            if rng.chance(1, 2) {
                value_slots.push(d);
            }
        }
        if value_slots.len() == n_slots {
            value_slots.pop();
        }
    }
    // one run in six (and every other long-lived one) is executed by the debug-assertions build
    let dbg_build = if stress { rng.chance(2, 3) } else { rng.chance(1, 6) };
    // one run in ten: the process' ambient state changes under the callers' feet
    let mut ambient: Vec<(usize, usize, String, u64)> = vec![];
    if rng.chance(1, 8) {
        for _ in 0..(1 + rng.below(2)) {
            // half of the time the process was started that way
            let (cl, j) = if rng.chance(1, 2) { (usize::MAX, 0) } else { let cl = rng.below(n_clients); (cl, rng.below(clients[cl].len())) };
            match rng.below(3) {
                0 => ambient.push((cl, j, "stderr".to_string(), 0)),
                1 => ambient.push((cl, j, "rlimit_stack".to_string(), *rng.pick(&[256u64, 512, 1024, 65536]))),
                _ => ambient.push((cl, j, "cwd".to_string(), rng.below(2) as u64)),
            }
        }
    }
    // one run in twelve: one to three calls are made while the caller is unwinding
    let mut unwinding_ops: Vec<(usize, usize)> = vec![];
    if !stress && rng.chance(1, 12) {
        for _ in 0..(1 + rng.below(3)) {
            let cl = rng.below(n_clients);
            let j = rng.below(clients[cl].len());
            if matches!(clients[cl][j], Op::Q { .. } | Op::P { .. } | Op::W { .. } | Op::E { .. } | Op::Ref { .. } | Op::Parse { .. }) && !unwinding_ops.contains(&(cl, j)) {
                unwinding_ops.push((cl, j));
            }
        }
    }
    // one run in eight has an environment of its own, and may change it between calls
    let mut env: Vec<(String, Option<String>)> = vec![];
    let mut env_changes: Vec<(usize, usize, String, Option<String>)> = vec![];
    if rng.chance(1, 8) {
        let draw = |rng: &mut Rng| -> (String, Option<String>) {
            let (name, vals): (&str, &[&str]) = *rng.pick(&[
                ("RUST_MIN_STACK", &["16384", "65536", "262144", "1048576", "67108864", "0", "x"][..]),
                ("RUST_BACKTRACE", &["0", "1", "full"][..]),
                ("RUST_LOG", &["trace", "debug", "off", "jsonpath_rust=trace"][..]),
                ("LANG", &["C", "POSIX", "tr_TR.UTF-8", "de_DE.UTF-8", "en_US.UTF-8"][..]),
                ("LC_ALL", &["C", "tr_TR.UTF-8", "ja_JP.eucJP"][..]),
                ("TZ", &["UTC", "Pacific/Kiritimati", "America/St_Johns"][..]),
                ("HOME", &["/nonexistent"][..]),
                ("TMPDIR", &["/nonexistent"][..]),
                ("NO_COLOR", &["1"][..]),
                ("RAYON_NUM_THREADS", &["1", "64"][..]),
                ("JSONPATH_RUST_DEBUG", &["1", "0", "true"][..]),
                ("JSONPATH_MAX_DEPTH", &["1", "8", "100000"][..]),
                ("JSONPATH_STRICT", &["1", "0"][..]),
                ("REGEX_SIZE_LIMIT", &["1", "1000", "100000000"][..]),
            ]);
            (name.to_string(), if rng.chance(1, 5) { None } else { Some(rng.pick(vals).to_string()) })
        };
        for _ in 0..(1 + rng.below(4)) {
            env.push(draw(&mut rng));
        }
        for _ in 0..rng.below(4) {
            let cl = rng.below(n_clients);
            let j = rng.below(clients[cl].len());
            let (n, v) = draw(&mut rng);
            env_changes.push((cl, j, n, v));
        }
    }
    // one run in twelve: a client makes its last call from a thread-local destructor
    let mut exit_calls = vec![];
    if !stress && rng.chance(1, 12) {
        let cl = rng.below(n_clients);
        let n = clients[cl].len();
        if matches!(clients[cl][n - 1], Op::Q { .. } | Op::P { .. } | Op::W { .. } | Op::E { .. } | Op::Ref { .. } | Op::Parse { .. }) && !faults.iter().any(|f| f.c == cl && f.op == n - 1) {
            exit_calls.push((cl, if rng.chance(1, 2) { 0 } else { rng.below(n) }));
        }
    }
    let plan = Plan {
        seed: derive(run_seed, "sched", 0),
        repr,
        contents: content_map.iter().map(|ci| c.contents[*ci].clone()).collect(),
        slots: slots.clone(),
        queries: query_map.iter().map(|qi| c.queries[*qi].clone()).chain(filler_texts.iter().cloned()).collect(),
        qslots,
        clients,
        policy,
        site_mask,
        faults,
        thread_per_op,
        schedule: None,
        filler_from: if stress { Some(n_normal_q) } else { None },
        deep_stack,
        reenter_get: repr > 0 && !stress && !has_records && !has_deep && rng.chance(1, 4),
        clock_jumps,
        exit_calls,
        alloc_faults,
        unwinding_ops,
        env,
        env_changes,
        held,
        ambient,
        value_slots,
        dbg_build,
    };
    // fillers select nothing whatever the document (their names occur nowhere), so they need no cold
    // process each; a sample of them is computed cold anyway, to check exactly that assumption
    let keys = plan_keys_r(&plan).into_iter().filter(|(_, _, q)| *q < n_normal_q).map(|(kr, ct, q)| (kr, content_map[ct], query_map[q])).collect();
    let filler_sample: Vec<(usize, usize)> = plan_keys(&plan).into_iter().filter(|(_, q)| *q >= n_normal_q).take(6).collect();
    (plan, PlanMeta { keys, content_map, query_map, filler_sample })
}

/// (plan content idx, plan query idx) pairs whose cold result the plan may need.
pub fn plan_keys(plan: &Plan) -> BTreeSet<(usize, usize)> {
    let mut keys = BTreeSet::new();
    // a parsed-query slot may stand for any of the plan's edit targets by the time it is evaluated
    let edit_qs: BTreeSet<usize> = plan.clients.iter().flatten().filter_map(|o| if let Op::EditQ { q, .. } = o { Some(*q) } else { None }).collect();
    for ops in &plan.clients {
        for op in ops {
            if let Op::E { d, .. } = op {
                for ct in &plan.slots[*d] {
                    for q in &edit_qs {
                        keys.insert((*ct, *q));
                    }
                }
            }
            match op {
                Op::Q { q, d } | Op::P { q, d } | Op::W { q, d } | Op::Ref { q, d } | Op::RefMut { q, d } => {
                    for ct in &plan.slots[*d] {
                        keys.insert((*ct, *q));
                    }
                }
                Op::E { s, d } => {
                    for ct in &plan.slots[*d] {
                        keys.insert((*ct, plan.qslots[*s]));
                    }
                }
                Op::Parse { s } | Op::CloneQ { s, .. } => {
                    // any content will do for the Parse observation
                    keys.insert((plan.slots[0][0], plan.qslots[*s]));
                }
                _ => {}
            }
        }
    }
    keys
}

// ---------------------------------------------------------------------------------------------
// judging a run against the cold table

pub type ColdTable = HashMap<(u8, String, String), ColdRes>;

#[derive(Clone, Debug, Serialize, Deserialize)]
pub struct Mismatch {
    /// obs-differs | entry-points-disagree | document-or-query-changed | nondeterministic-replay
    pub class: String,
    pub c: usize,
    pub j: usize,
    pub kind: String,
    pub query: String,
    pub content: String,
    pub expected: Option<String>,
    pub observed: Option<String>,
    pub detail: String,
}

fn expected_for<'a>(kind: &str, cold: &'a ColdRes) -> Option<&'a str> {
    Some(match kind {
        "Q" => &cold.q,
        "P" => &cold.p,
        "W" => &cold.w,
        "E" => &cold.e,
        "Parse" => &cold.parse,
        "Ref" => &cold.r#ref,
        // reference_mut resolves the same text to the same location (SimDoc: neither is provided)
        "RefMut" => &cold.r#ref,
        _ => return None,
    })
}

pub fn judge(plan: &Plan, r: &RunResult, table: &ColdTable) -> Vec<Mismatch> {
    let mut out = vec![];
    for f in &r.integrity_failures {
        out.push(Mismatch { class: "document-or-query-changed".into(), c: 0, j: 0, kind: "history".into(), query: String::new(), content: String::new(), expected: None, observed: None, detail: f.clone() });
    }
    for rec in &r.ops {
        if rec.status == "aborted" {
            continue;
        }
        if rec.kind == "CloneQ" || rec.kind == "EditQ" {
            // judged by the evaluations made through the clone / the edited query
            continue;
        }
        if rec.q == usize::MAX {
            continue;
        }
        let query = &plan.queries[rec.q];
        // a panic or an op that never saw a document: judge against the slot's possible contents
        let contents: Vec<usize> = if rec.content != usize::MAX {
            vec![rec.content]
        } else {
            match &plan.clients[rec.c][rec.j] {
                Op::Q { d, .. } | Op::P { d, .. } | Op::W { d, .. } | Op::Ref { d, .. } | Op::RefMut { d, .. } | Op::E { d, .. } => plan.slots[*d].clone(),
                _ => vec![plan.slots[0][0]],
            }
        };
        let rec_repr = match &plan.clients[rec.c][rec.j] {
            Op::Q { d, .. } | Op::P { d, .. } | Op::W { d, .. } | Op::Ref { d, .. } | Op::RefMut { d, .. } | Op::E { d, .. } => slot_repr(plan, *d),
            _ => slot_repr(plan, 0),
        };
        let mut matched = false;
        let mut first_expected = None;
        let mut have = false;
        if plan.filler_from.map(|f| rec.q >= f).unwrap_or(false) && !contents.iter().any(|ct| table.contains_key(&(rec_repr, plan.contents[*ct].clone(), query.clone()))) {
            // a filler whose cold result was not computed: a name that occurs in no document selects nothing
            let exp = if rec.kind == "Ref" { "None" } else { "Ok[]" };
            if fnv(exp.as_bytes()) != rec.digest {
                out.push(Mismatch { class: "obs-differs".into(), c: rec.c, j: rec.j, kind: rec.kind.clone(), query: query.clone(), content: contents.first().map(|c| plan.contents[*c].clone()).unwrap_or_default(), expected: Some(exp.into()), observed: rec.obs.clone(), detail: format!("operation {} of client {} ({}) on a member name that occurs in no document did not give the empty result", rec.j, rec.c, rec.kind) });
            }
            continue;
        }
        for ct in &contents {
            let Some(cold) = table.get(&(rec_repr, plan.contents[*ct].clone(), query.clone())) else { continue };
            have = true;
            let Some(exp) = expected_for(&rec.kind, cold) else { continue };
            if first_expected.is_none() {
                first_expected = Some(exp.to_string());
            }
            if fnv(exp.as_bytes()) == rec.digest {
                matched = true;
                break;
            }
        }
        if have && !matched {
            out.push(Mismatch {
                class: "obs-differs".into(),
                c: rec.c,
                j: rec.j,
                kind: rec.kind.clone(),
                query: query.clone(),
                content: contents.first().map(|c| plan.contents[*c].clone()).unwrap_or_default(),
                expected: first_expected,
                observed: rec.obs.clone(),
                detail: format!("operation {} of client {} ({}) differs from the same call made cold in a fresh process", rec.j, rec.c, rec.kind),
            });
        }
    }
    out
}

// ---------------------------------------------------------------------------------------------
// minimisation

fn crash_mismatch(e: &str) -> Mismatch {
    Mismatch { class: "run-crashed".into(), c: 0, j: 0, kind: "process".into(), query: String::new(), content: String::new(), expected: Some("every cold process of the plan's keys completed".into()), observed: Some(e.to_string()), detail: format!("the run process was killed ({}), while the same calls made cold complete", e) }
}

fn still_fails(plan: &Plan, table: &ColdTable, class: &str, kind: &str) -> Option<(Option<RunResult>, Mismatch)> {
    match run_plan(plan, false) {
        Ok(r) => {
            let ms = judge(plan, &r, table);
            let m = ms.into_iter().find(|m| m.class == class && (m.kind == kind || class != "obs-differs"))?;
            Some((Some(r), m))
        }
        Err(e) if e.starts_with("crashed") && class == "run-crashed" => Some((None, crash_mismatch(&e))),
        Err(_) => None,
    }
}

fn remove_op(plan: &Plan, c: usize, from: usize, to: usize) -> Plan {
    let mut p = plan.clone();
    p.clients[c].drain(from..to);
    p.clock_jumps = plan.clock_jumps.iter().filter_map(|j| if j.c != c { Some(j.clone()) } else if j.op >= from && j.op < to { None } else if j.op >= to { Some(Jump { c: j.c, op: j.op - (to - from), nth: j.nth, secs: j.secs }) } else { Some(j.clone()) }).collect();
    p.deep_stack = plan.deep_stack.iter().filter_map(|(cc, j, k)| if *cc != c { Some((*cc, *j, *k)) } else if *j >= from && *j < to { None } else if *j >= to { Some((*cc, j - (to - from), *k)) } else { Some((*cc, *j, *k)) }).collect();
    p.alloc_faults = plan.alloc_faults.iter().filter_map(|(cc, j, k)| if *cc != c { Some((*cc, *j, *k)) } else if *j >= from && *j < to { None } else if *j >= to { Some((*cc, j - (to - from), *k)) } else { Some((*cc, *j, *k)) }).collect();
    p.unwinding_ops = plan.unwinding_ops.iter().filter_map(|(cc, j)| if *cc != c { Some((*cc, *j)) } else if *j >= from && *j < to { None } else if *j >= to { Some((*cc, j - (to - from))) } else { Some((*cc, *j)) }).collect();
    p.held = plan.held.iter().filter_map(|(cc, j, m)| if *cc != c { Some((*cc, *j, *m)) } else if *j >= from && *j < to { None } else if *j >= to { Some((*cc, j - (to - from), *m)) } else { Some((*cc, *j, *m)) }).collect();
    // an ambient change outlives its operation: when the operation goes, it moves to the next one
    p.ambient = plan.ambient.iter().map(|(cc, j, n, v)| if *cc != c { (*cc, *j, n.clone(), *v) } else if *j >= to { (*cc, j - (to - from), n.clone(), *v) } else if *j >= from { (*cc, from.min(p.clients[c].len().saturating_sub(1)), n.clone(), *v) } else { (*cc, *j, n.clone(), *v) }).collect();
    p.env_changes = plan.env_changes.iter().filter_map(|(cc, j, n, v)| if *cc != c { Some((*cc, *j, n.clone(), v.clone())) } else if *j >= from && *j < to { None } else if *j >= to { Some((*cc, j - (to - from), n.clone(), v.clone())) } else { Some((*cc, *j, n.clone(), v.clone())) }).collect();
    p.exit_calls = plan.exit_calls.iter().map(|(cc, r)| if *cc != c { (*cc, *r) } else if *r >= to { (*cc, r - (to - from)) } else if *r >= from { (*cc, from) } else { (*cc, *r) }).collect();
    // faults refer to op indices: shift or drop
    p.faults = plan
        .faults
        .iter()
        .filter_map(|f| {
            if f.c != c {
                Some(f.clone())
            } else if f.op >= from && f.op < to {
                None
            } else if f.op >= to {
                Some(Fault { c: f.c, op: f.op - (to - from), nth: f.nth, site: f.site })
            } else {
                Some(f.clone())
            }
        })
        .collect();
    p
}

fn remove_client(plan: &Plan, c: usize) -> Plan {
    let mut p = plan.clone();
    p.clients.remove(c);
    p.alloc_faults = plan.alloc_faults.iter().filter(|(cc, _, _)| *cc != c).map(|(cc, j, k)| (if *cc > c { cc - 1 } else { *cc }, *j, *k)).collect();
    p.unwinding_ops = plan.unwinding_ops.iter().filter(|(cc, _)| *cc != c).map(|(cc, j)| (if *cc > c { cc - 1 } else { *cc }, *j)).collect();
    p.held = plan.held.iter().filter(|(cc, _, _)| *cc != c).map(|(cc, j, m)| (if *cc > c { cc - 1 } else { *cc }, *j, *m)).collect();
    p.ambient = plan.ambient.iter().filter(|(cc, _, _, _)| *cc != c).map(|(cc, j, n, v)| (if *cc > c { cc - 1 } else { *cc }, *j, n.clone(), *v)).collect();
    p.env_changes = plan.env_changes.iter().filter(|(cc, _, _, _)| *cc != c).map(|(cc, j, n, v)| (if *cc > c { cc - 1 } else { *cc }, *j, n.clone(), v.clone())).collect();
    p.exit_calls = plan.exit_calls.iter().filter(|(cc, _)| *cc != c).map(|(cc, r)| (if *cc > c { cc - 1 } else { *cc }, *r)).collect();
    p.deep_stack = plan.deep_stack.iter().filter(|(cc, _, _)| *cc != c).map(|(cc, j, k)| (if *cc > c { cc - 1 } else { *cc }, *j, *k)).collect();
    p.clock_jumps = plan.clock_jumps.iter().filter(|j| j.c != c).map(|j| Jump { c: if j.c > c { j.c - 1 } else { j.c }, op: j.op, nth: j.nth, secs: j.secs }).collect();
    p.faults = plan.faults.iter().filter(|f| f.c != c).map(|f| Fault { c: if f.c > c { f.c - 1 } else { f.c }, op: f.op, nth: f.nth, site: f.site }).collect();
    p
}

pub fn minimise(plan: &Plan, table: &mut ColdTable, class: &str, kind: &str, budget: usize) -> Plan {
    let mut cur = plan.clone();
    cur.schedule = None;
    let mut spent = 0usize;
    let started = std::time::Instant::now();
    // long-lived runs are expensive to re-execute: the candidate budget is also a wall-clock budget
    let budget = if plan.clients.iter().map(|c| c.len()).sum::<usize>() > 200 { budget.min(120) } else { budget };
    let try_cand = |cand: Plan, cur: &mut Plan, spent: &mut usize, table: &ColdTable| -> bool {
        if *spent >= budget || started.elapsed().as_secs() > 120 {
            return false;
        }
        *spent += 1;
        if cand.clients.is_empty() || cand.clients.iter().all(|c| c.is_empty()) {
            return false;
        }
        if still_fails(&cand, table, class, kind).is_some() {
            *cur = cand;
            true
        } else {
            false
        }
    };
    // whole clients
    let mut c = 0;
    while c < cur.clients.len() && cur.clients.len() > 1 {
        let cand = remove_client(&cur, c);
        if !try_cand(cand, &mut cur, &mut spent, table) {
            c += 1;
        }
    }
    // faults
    let mut i = 0;
    while i < cur.faults.len() {
        let mut cand = cur.clone();
        cand.faults.remove(i);
        if !try_cand(cand, &mut cur, &mut spent, table) {
            i += 1;
        }
    }
    // the other injected conditions: caller stack depth, calls from a destructor, clock jumps
    let mut i = 0;
    while i < cur.deep_stack.len() {
        let mut cand = cur.clone();
        cand.deep_stack.remove(i);
        if !try_cand(cand, &mut cur, &mut spent, table) {
            i += 1;
        }
    }
    if !cur.alloc_faults.is_empty() {
        let mut cand = cur.clone();
        cand.alloc_faults.clear();
        try_cand(cand, &mut cur, &mut spent, table);
    }
    if !cur.unwinding_ops.is_empty() {
        let mut cand = cur.clone();
        cand.unwinding_ops.clear();
        try_cand(cand, &mut cur, &mut spent, table);
    }
    if !cur.held.is_empty() {
        let mut cand = cur.clone();
        cand.held.clear();
        try_cand(cand, &mut cur, &mut spent, table);
    }
    if !cur.ambient.is_empty() {
        let mut cand = cur.clone();
        cand.ambient.clear();
        try_cand(cand, &mut cur, &mut spent, table);
    }
    if !cur.env.is_empty() || !cur.env_changes.is_empty() {
        let mut cand = cur.clone();
        cand.env.clear();
        cand.env_changes.clear();
        try_cand(cand, &mut cur, &mut spent, table);
    }
    if !cur.exit_calls.is_empty() {
        let mut cand = cur.clone();
        cand.exit_calls.clear();
        try_cand(cand, &mut cur, &mut spent, table);
    }
    if !cur.clock_jumps.is_empty() {
        let mut cand = cur.clone();
        cand.clock_jumps.clear();
        try_cand(cand, &mut cur, &mut spent, table);
    }
    // ops: ddmin per client
    for c in 0..cur.clients.len() {
        let mut n = 2usize;
        loop {
            let len = cur.clients[c].len();
            if len < 1 {
                break;
            }
            let chunk = ((len + n - 1) / n).max(1);
            let mut reduced = false;
            let mut start = 0;
            while start < len {
                let end = (start + chunk).min(len);
                let cand = remove_op(&cur, c, start, end);
                if try_cand(cand, &mut cur, &mut spent, table) {
                    reduced = true;
                    n = (n - 1).max(2);
                    break;
                }
                start = end;
            }
            if !reduced {
                if chunk == 1 {
                    break;
                }
                n = (n * 2).min(len);
            }
            if spent >= budget {
                break;
            }
        }
    }
    // empty clients left over
    let mut c = 0;
    while c < cur.clients.len() && cur.clients.len() > 1 {
        if cur.clients[c].is_empty() {
            let cand = remove_client(&cur, c);
            if try_cand(cand, &mut cur, &mut spent, table) {
                continue;
            }
        }
        c += 1;
    }
    // shorter query texts (their cold results are computed on demand, each in its own fresh process)
    let used: BTreeSet<usize> = plan_keys(&cur).into_iter().map(|(_, q)| q).collect();
    for qi in used {
        for _ in 0..12 {
            let mut progressed = false;
            for cand_q in gen::shrink_query(&cur.queries[qi]).into_iter().take(30) {
                if spent >= budget {
                    break;
                }
                let mut cand = cur.clone();
                cand.queries[qi] = cand_q;
                let mut ok = true;
                for (kr, ct, q) in plan_keys_r(&cand) {
                    let key = (kr, cand.contents[ct].clone(), cand.queries[q].clone());
                    if !table.contains_key(&key) {
                        match run_cold(&ColdReq { repr: key.0, content: key.1.clone(), query: key.2.clone() }) {
                            Ok(r) => {
                                table.insert(key, r);
                            }
                            Err(_) => ok = false,
                        }
                    }
                }
                if !ok {
                    continue;
                }
                spent += 1;
                if still_fails(&cand, table, class, kind).is_some() {
                    cur = cand;
                    progressed = true;
                    break;
                }
            }
            if !progressed {
                break;
            }
        }
    }
    // schedule simplification
    if cur.policy != Policy::RunToCompletion {
        let mut cand = cur.clone();
        cand.policy = Policy::RunToCompletion;
        try_cand(cand, &mut cur, &mut spent, table);
    }
    if cur.thread_per_op {
        let mut cand = cur.clone();
        cand.thread_per_op = false;
        try_cand(cand, &mut cur, &mut spent, table);
    }
    cur
}

// ---------------------------------------------------------------------------------------------
// driver

pub struct TierCfg {
    pub name: &'static str,
    pub families: usize,
    pub q_per_fam: usize,
    /// families of the agreement sweep (20 queries each)
    pub sweep_families: u64,
    pub runs: u64,
    pub determinism_reruns: u64,
    pub wall_budget_s: f64,
}

pub fn tier(name: &str) -> TierCfg {
    match name {
        "thorough" => TierCfg { name: "thorough", families: 48, q_per_fam: 14, sweep_families: 1_000_000, runs: 400_000, determinism_reruns: 5_000, wall_budget_s: 900.0 },
        _ => TierCfg { name: "quick", families: 16, q_per_fam: 8, sweep_families: 20_000, runs: 8_000, determinism_reruns: 250, wall_budget_s: 75.0 },
    }
}

pub fn par_map<T: Send + Sync, R: Send>(items: &[T], workers: usize, f: impl Fn(&T) -> R + Sync) -> Vec<R> {
    let next = std::sync::atomic::AtomicUsize::new(0);
    let out: Mutex<Vec<(usize, R)>> = Mutex::new(Vec::with_capacity(items.len()));
    std::thread::scope(|s| {
        for _ in 0..workers.max(1) {
            s.spawn(|| loop {
                let i = next.fetch_add(1, std::sync::atomic::Ordering::Relaxed);
                if i >= items.len() {
                    break;
                }
                let r = f(&items[i]);
                out.lock().unwrap().push((i, r));
            });
        }
    });
    let mut v = out.into_inner().unwrap();
    v.sort_by_key(|(i, _)| *i);
    v.into_iter().map(|(_, r)| r).collect()
}

fn replay_body(plan: &Plan, m: &Mismatch, r: &RunResult, table: &ColdTable, original_ops: usize) -> Value {
    // the cold entries the replay needs travel with it, and are recomputed at replay time anyway
    let mut cold = vec![];
    for (kr, ct, q) in plan_keys_r(plan) {
        if let Some(c) = table.get(&(kr, plan.contents[ct].clone(), plan.queries[q].clone())) {
            cold.push(json!({"repr": kr, "content": plan.contents[ct], "query": plan.queries[q], "cold": c}));
        }
    }
    let mut p = plan.clone();
    p.schedule = if r.schedule.is_empty() { None } else { Some(r.schedule.clone()) };
    json!({
        "property": "C12",
        "kind": "c12-run",
        "class": m.class,
        "violation": m,
        "plan": p,
        "ops_total": plan.clients.iter().map(|c| c.len()).sum::<usize>(),
        "ops_before_minimisation": original_ops,
        "scheduler": {"steps": r.sched.steps, "switches": r.sched.switches, "faults_fired": r.sched.faults_fired},
        "event_log": r.log.iter().take(400).map(|(s, c, o, site, n)| json!([s, c, o, site, n])).collect::<Vec<_>>(),
        "cold_results_at_report_time": cold,
        "how_to_replay": "./check C12 --replay <this file>  (runs the plan in a fresh process following the recorded schedule, recomputes the cold oracle for its keys in fresh processes and compares)",
    })
}

pub fn drive(tier_name: &str, seed: u64, workers: usize) -> i32 {
    let t0 = std::time::Instant::now();
    let t = tier(tier_name);
    let runs_target: u64 = std::env::var("VERIF_C12_RUNS").ok().and_then(|s| s.parse().ok()).unwrap_or(t.runs);
    println!("C12 tier={} VERIF_SEED={} runs<={} workers={}", t.name, seed, runs_target, workers);
    let corpus = gen_corpus(derive(seed, "corpus", 0), t.families, t.q_per_fam);
    println!("corpus: {} contents in {} families, {} queries", corpus.contents.len(), corpus.families.len(), corpus.queries.len());
    if std::env::var("VERIF_DUMP_CORPUS").is_ok() {
        for q in &corpus.queries {
            println!("Q {}", q);
        }
        return 0;
    }
    let mut table: ColdTable = HashMap::new();
    let mut cur_epoch = 0u64;
    let mut cur_corpus = gen_corpus(derive(seed, "corpus", 0), t.families, t.q_per_fam);
    let mut corpora_used = 1u64;
    let mut cold_total = 0usize;
    let mut cold_disagreements: Vec<(ColdReq, String)> = vec![];
    // agreement sweep: the four entry points on many (document, query) pairs, in fresh chunk processes
    let sweep_families: u64 = std::env::var("VERIF_C12_SWEEP").ok().and_then(|s| s.parse().ok()).unwrap_or(t.sweep_families);
    let mut sweep = SweepOut::default();
    {
        let chunk = 2000u64;
        let reqs: Vec<SweepReq> = (0..(sweep_families + chunk - 1) / chunk).map(|ci| SweepReq { seed, from: ci * chunk, to: ((ci + 1) * chunk).min(sweep_families) }).collect();
        let outs = par_map(&reqs, workers, |r| spawn_with_input(&["c12-sweep"], &serde_json::to_string(r).unwrap(), 600).and_then(|o| crate::report::from_json::<SweepOut>(o.trim()).map_err(|e| e.to_string())));
        for o in outs {
            match o {
                Ok(o) => {
                    sweep.pairs += o.pairs;
                    sweep.non_empty += o.non_empty;
                    sweep.errs += o.errs;
                    sweep.disagreements += o.disagreements;
                    if sweep.first.is_none() {
                        sweep.first = o.first;
                    }
                }
                Err(e) => {
                    eprintln!("harness error: sweep chunk: {}", e);
                    return 2;
                }
            }
        }
        if let Some((req, _)) = &sweep.first {
            // confirm in a process of its own
            match run_cold(req) {
                Ok(c) => {
                    if let Some(d) = c.disagreement {
                        cold_disagreements.push((req.clone(), d));
                    }
                }
                Err(e) => {
                    eprintln!("harness error: cold: {}", e);
                    return 2;
                }
            }
        }
    }
    let batch = 2000u64;
    let mut done: u64 = 0;
    let mut agg_steps = 0u64;
    let mut agg_switches = 0u64;
    let mut agg_intra = 0u64;
    let mut agg_ops = 0u64;
    let mut ops_by_kind: BTreeMap<String, u64> = BTreeMap::new();
    let mut status_counts: BTreeMap<String, u64> = BTreeMap::new();
    let mut yields_by_site = vec![0u64; sched::MAX_SITES];
    let mut switches_by_site = vec![0u64; sched::MAX_SITES];
    let mut aborts_by_site = vec![0u64; sched::MAX_SITES];
    let mut faults_planned = 0u64;
    let mut deep_ops = 0u64;
    let mut low_stack_ops = 0u64;
    let mut alloc_fault_ops = 0u64;
    let mut faults_fired = 0u64;
    let mut sigs: BTreeSet<u64> = BTreeSet::new();
    let mut nontrivial_runs = 0u64;
    let mut probes_sum: BTreeMap<&'static str, u64> = BTreeMap::new();
    let mut first_kinds: BTreeMap<String, u64> = BTreeMap::new();
    let mut policies: BTreeMap<&'static str, u64> = BTreeMap::new();
    let mut reprs: BTreeMap<String, u64> = BTreeMap::new();
    let mut clients_hist: BTreeMap<usize, u64> = BTreeMap::new();
    let mut samples: Vec<Value> = vec![];
    let mut harness_errors: Vec<String> = vec![];
    let mut first_violation: Option<(u64, Plan, Mismatch)> = None;
    let mut n_violating_runs = 0u64;
    let mut fingerprints: Vec<(u64, u64, bool)> = vec![];
    let mut cap_hits = 0u64;
    let mut wall_runs = 0.0f64;

    while done < runs_target && cold_disagreements.is_empty() {
        // time lost waiting for stalled runs (a client blocked inside the system under test while another
        // held the baton: 20 s each, a few at most before the batch turns atomic) is not charged
        let stall_allowance = if STALLED_RUNS.load(std::sync::atomic::Ordering::Relaxed) > 0 { 45.0 } else { 0.0 };
        if t0.elapsed().as_secs_f64() > t.wall_budget_s + stall_allowance && done > 0 {
            break;
        }
        let n = batch.min(runs_target - done);
        let idxs: Vec<u64> = (done..done + n).collect();
        // the thorough tier changes its corpus of documents and query texts every 40 000 runs
        let epoch = done / 40_000;
        if epoch != cur_epoch {
            cur_epoch = epoch;
            cur_corpus = gen_corpus(derive(seed, "corpus", epoch), t.families, t.q_per_fam);
            corpora_used += 1;
            table.clear();
        }
        let corpus = &cur_corpus;
        let plans: Vec<(u64, Plan, PlanMeta)> = idxs.iter().map(|i| {
            let (p, m) = gen_plan(corpus, derive(seed, "run", *i));
            (*i, p, m)
        }).collect();
        // cold keys not yet known
        let mut need: BTreeSet<(u8, usize, usize)> = BTreeSet::new();
        for (_, _, m) in &plans {
            for k in &m.keys {
                if !table.contains_key(&(k.0, corpus.contents[k.1].clone(), corpus.queries[k.2].clone())) {
                    need.insert(*k);
                }
            }
        }
        let need: Vec<(u8, usize, usize)> = need.into_iter().collect();
        let mut reqs: Vec<ColdReq> = need.iter().map(|k| ColdReq { repr: k.0, content: corpus.contents[k.1].clone(), query: corpus.queries[k.2].clone() }).collect();
        for (_, p, m) in &plans {
            for (ct, q) in &m.filler_sample {
                for kr in plan_reprs(p) {
                    reqs.push(ColdReq { repr: kr, content: p.contents[*ct].clone(), query: p.queries[*q].clone() });
                }
            }
        }
        let colds = par_map(&reqs, workers, |r| run_cold(r));
        for (req, res) in reqs.iter().zip(colds) {
            match res {
                Ok(c) => {
                    if let Some(d) = &c.disagreement {
                        cold_disagreements.push((req.clone(), d.clone()));
                    }
                    cold_total += 1;
                    table.insert((req.repr, req.content.clone(), req.query.clone()), c);
                }
                Err(e) => harness_errors.push(format!("cold {:?}: {}", req, e)),
            }
        }
        if !harness_errors.is_empty() {
            break;
        }
        let tr = std::time::Instant::now();
        let results = par_map(&plans, workers, |(i, p, _)| {
            let t1 = std::time::Instant::now();
            let r = run_plan(p, false);
            if std::env::var("VERIF_C12_PROFILE").is_ok() {
                let ms = t1.elapsed().as_millis();
                if ms > 400 {
                    eprintln!("slow run {}: {} ms clients={} ops={} contents={:?} stress={} policy={:?}", i, ms, p.clients.len(), p.clients.iter().map(|c| c.len()).sum::<usize>(), p.contents.iter().map(|c| c.chars().take(24).collect::<String>()).collect::<Vec<_>>(), p.filler_from.is_some(), p.policy);
                }
            }
            r
        });
        wall_runs += tr.elapsed().as_secs_f64();
        for ((i, plan, _), res) in plans.iter().zip(results) {
            let r = match res {
                Ok(r) => r,
                Err(e) if e.starts_with("crashed") => {
                    n_violating_runs += 1;
                    if first_violation.is_none() {
                        first_violation = Some((*i, plan.clone(), crash_mismatch(&e)));
                    }
                    continue;
                }
                Err(e) => {
                    harness_errors.push(format!("run {}: {}", i, e));
                    continue;
                }
            };
            fingerprints.push((*i, r.fingerprint, r.atomic_variant));
            agg_steps += r.sched.steps;
            agg_switches += r.sched.switches;
            agg_intra += r.sched.intra_op_switches;
            agg_ops += r.ops.len() as u64;
            if r.sched.cap_hit {
                cap_hits += 1;
            }
            for o in &r.ops {
                *ops_by_kind.entry(o.kind.clone()).or_insert(0) += 1;
                *status_counts.entry(o.status.clone()).or_insert(0) += 1;
            }
            for s in 0..sched::MAX_SITES {
                yields_by_site[s] += r.sched.yields_by_site.get(s).copied().unwrap_or(0);
                switches_by_site[s] += r.sched.switches_by_site.get(s).copied().unwrap_or(0);
                aborts_by_site[s] += r.sched.aborts_fired_by_site.get(s).copied().unwrap_or(0);
            }
            faults_planned += plan.faults.len() as u64;
            deep_ops += plan.deep_stack.iter().filter(|(_, _, k)| *k < LOW_STACK).count() as u64;
            low_stack_ops += plan.deep_stack.iter().filter(|(_, _, k)| *k >= LOW_STACK).count() as u64;
            faults_fired += r.sched.faults_fired.len() as u64;
            if plan.clients.len() >= 2 && r.sched.intra_op_switches >= 1 {
                nontrivial_runs += 1;
                sigs.insert(r.sched.switch_sig);
            }
            *probes_sum.entry("same_query_two_contents").or_insert(0) += r.probes.same_query_two_contents;
            *probes_sum.entry("equal_content_two_live_docs").or_insert(0) += r.probes.equal_content_two_live_docs;
            *probes_sum.entry("doc_rebuilds").or_insert(0) += r.probes.doc_rebuilds;
            *probes_sum.entry("doc_rebuilt_at_same_address").or_insert(0) += r.probes.doc_rebuilt_at_same_address;
            *probes_sum.entry("ops_after_abort_on_same_client").or_insert(0) += r.probes.ops_after_abort_on_same_client;
            *probes_sum.entry("switch_at_regex_pre").or_insert(0) += r.probes.switch_at_regex_pre;
            *probes_sum.entry("os_threads_used").or_insert(0) += r.probes.threads_used;
            *probes_sum.entry("clock_jumps_fired").or_insert(0) += r.sched.clock_jumps_fired;
            *probes_sum.entry("clock_reads_by_the_run_processes").or_insert(0) += r.probes.clock_reads;
            *probes_sum.entry("calls_from_a_thread_local_destructor").or_insert(0) += r.probes.calls_from_tls_destructor;
            *probes_sum.entry("parsed_queries_edited_through_their_public_field").or_insert(0) += r.probes.parsed_queries_edited;
            *probes_sum.entry("reference_mut_calls_on_private_clones").or_insert(0) += r.probes.reference_mut_calls;
            *probes_sum.entry("allocations_refused_in_runs_that_completed").or_insert(0) += r.probes.allocations_refused;
            alloc_fault_ops += plan.alloc_faults.len() as u64;
            *probes_sum.entry("calls_made_while_the_caller_is_unwinding").or_insert(0) += r.probes.calls_while_unwinding;
            *probes_sum.entry("environment_variables_changed_between_calls").or_insert(0) += r.probes.env_changes;
            if !plan.env.is_empty() {
                *probes_sum.entry("runs_with_a_varied_environment").or_insert(0) += 1;
            }
            *probes_sum.entry("ambient_process_state_changes").or_insert(0) += r.probes.ambient_changes;
            if plan.dbg_build && dbg_exe().is_some() {
                *probes_sum.entry("runs_executed_by_the_debug_assertions_build").or_insert(0) += 1;
            }
            *probes_sum.entry("documents_updated_in_place_by_the_caller").or_insert(0) += r.probes.docs_edited_in_place;
            *probes_sum.entry("result_sets_kept_and_looked_at_later").or_insert(0) += r.probes.results_looked_at_later;
            *probes_sum.entry("result_sets_looked_at_on_another_thread").or_insert(0) += r.probes.results_looked_at_on_another_thread;
            if r.probes.clock_seam {
                *probes_sum.entry("runs_with_the_clock_seam_preloaded").or_insert(0) += 1;
            }
            let has_twins = plan.queries.iter().any(|q| q.contains("?match(") && plan.queries.contains(&q.replacen("?match(", "?search(", 1)));
            if has_twins {
                *probes_sum.entry("runs_with_match_and_search_same_pattern").or_insert(0) += 1;
            }
            *first_kinds.entry(r.probes.first_op_kind.clone()).or_insert(0) += 1;
            *policies.entry(match plan.policy {
                Policy::Random { .. } => "random",
                Policy::Pct { .. } => "pct",
                Policy::RunToCompletion => "run_to_completion",
                Policy::Barrier { .. } => "barrier_at_site",
            }).or_insert(0) += 1;
            *reprs.entry(if plan.repr == 0 { "Value".to_string() } else if plan.value_slots.is_empty() { format!("SimDoc/p{}", plan.repr - 1) } else { format!("SimDoc/p{} and Value in one process", plan.repr - 1) }).or_insert(0) += 1;
            *clients_hist.entry(plan.clients.len()).or_insert(0) += 1;
            if samples.len() < 2 && plan.clients.len() >= 2 && r.sched.intra_op_switches >= 1 {
                samples.push(json!({"run": i, "plan": plan, "schedule": r.schedule, "steps": r.sched.steps, "switches": r.sched.switches, "faults_fired": r.sched.faults_fired}));
            }
            let ms = judge(plan, &r, &table);
            if !ms.is_empty() {
                n_violating_runs += 1;
                if first_violation.is_none() {
                    first_violation = Some((*i, plan.clone(), ms[0].clone()));
                }
            }
        }
        done += n;
        if first_violation.is_some() || !cold_disagreements.is_empty() || !harness_errors.is_empty() {
            break;
        }
    }

    // determinism: re-run a sample in second fresh processes at another worker count, compare fingerprints
    let mut determinism_checked = 0u64;
    let mut determinism_mismatch: Vec<u64> = vec![];
    if harness_errors.is_empty() && first_violation.is_none() {
        let sample: Vec<(u64, u64, bool)> = fingerprints.iter().take(t.determinism_reruns as usize).cloned().collect();
        // like with like: a run that was executed with atomic operations (after a stall) is re-executed
        // that way; a re-execution that stalls is skipped, not judged
        let res = par_map(&sample, 7, |(i, _, atomic)| {
            let (p, _) = gen_plan(&corpus, derive(seed, "run", *i));
            rerun_fingerprint(&p, *atomic)
        });
        for ((i, fp, _), r) in sample.iter().zip(res) {
            match r {
                Ok(f2) if f2 == *fp => determinism_checked += 1,
                Ok(_) => {
                    determinism_checked += 1;
                    determinism_mismatch.push(*i)
                }
                Err(e) if e == "timeout" => {}
                Err(e) => harness_errors.push(format!("determinism rerun {}: {}", i, e)),
            }
        }
    }

    println!("phases: runs {:.1}s of {:.1}s so far", wall_runs, t0.elapsed().as_secs_f64());
    let mut exit = 0;
    let mut replay_path: Option<std::path::PathBuf> = None;
    let mut violations = 0usize;

    if let Some((req, d)) = cold_disagreements.first() {
        // the entry points disagree on a single (query, document): the replay is that key alone
        violations += cold_disagreements.len();
        let body = json!({"property": "C12", "kind": "c12-cold", "class": "entry-points-disagree", "request": req, "detail": d,
            "how_to_replay": "./check C12 --replay <this file>"});
        let p = report::write_replay("C12", &format!("seed{}-cold", seed), &body);
        println!("violation class=entry-points-disagree query={} document={} — {}", req.query, req.content, d);
        report::print_violation("C12", &p);
        replay_path = Some(p);
        exit = 1;
    } else if let Some((i, plan, m)) = &first_violation {
        violations += n_violating_runs as usize;
        let original_ops = plan.clients.iter().map(|c| c.len()).sum::<usize>();
        let min = minimise(plan, &mut table, &m.class, &m.kind, 400);
        // re-record with the full log, then confirm that following the recorded schedule reproduces it
        let (rfull, mfull) = match run_plan(&min, true) {
            Ok(r) => {
                let ms = judge(&min, &r, &table);
                match ms.into_iter().find(|x| x.class == m.class) {
                    Some(mm) => (r, mm),
                    None => {
                        // the minimised plan does not fail on re-execution: report the original with what we have
                        let r0 = run_plan(plan, true).unwrap_or(r);
                        (r0, m.clone())
                    }
                }
            }
            Err(e) if e.starts_with("crashed") => (RunResult { fingerprint: 0, ops: vec![], sched: SchedStats::default(), schedule: String::new(), probes: Probes::default(), integrity_failures: vec![], log: vec![], atomic_variant: false }, crash_mismatch(&e)),
            Err(e) => {
                harness_errors.push(format!("re-recording the minimised plan: {}", e));
                (RunResult { fingerprint: 0, ops: vec![], sched: SchedStats::default(), schedule: String::new(), probes: Probes::default(), integrity_failures: vec![], log: vec![], atomic_variant: false }, m.clone())
            }
        };
        let body = replay_body(&min, &mfull, &rfull, &table, original_ops);
        let p = report::write_replay("C12", &format!("seed{}-run{}", seed, i), &body);
        // replay check in a fresh process following the recorded schedule
        let mut follow = min.clone();
        follow.schedule = if rfull.schedule.is_empty() { None } else { Some(rfull.schedule.clone()) };
        let reproduced = match run_plan(&follow, true) {
            Ok(r) => !judge(&follow, &r, &table).is_empty() && !r.sched.diverged,
            Err(e) => e.starts_with("crashed") && mfull.class == "run-crashed",
        };
        println!(
            "violation class={} run={} clients={} ops={} (minimised from {}): op {} of client {} ({}) query={} expected={} observed={} replay_reproduces={}",
            mfull.class,
            i,
            min.clients.len(),
            min.clients.iter().map(|c| c.len()).sum::<usize>(),
            original_ops,
            mfull.j,
            mfull.c,
            mfull.kind,
            mfull.query,
            mfull.expected.clone().unwrap_or_default().chars().take(200).collect::<String>(),
            mfull.observed.clone().unwrap_or_default().chars().take(200).collect::<String>(),
            reproduced
        );
        report::print_violation("C12", &p);
        replay_path = Some(p);
        exit = 1;
    } else if !determinism_mismatch.is_empty() && harness_errors.is_empty() {
        // the same plan gave a different event log / observations in a second fresh process although
        // every scheduling decision is seeded: on a tree where results depend only on (query, document)
        // this cannot happen, so it is reported as the property's "identical on every repetition" clause
        violations += determinism_mismatch.len();
        let i = determinism_mismatch[0];
        let (p, _) = gen_plan(&corpus, derive(seed, "run", i));
        let body = json!({"property": "C12", "kind": "c12-repeat", "class": "nondeterministic-replay", "plan": p, "runs": determinism_mismatch,
            "how_to_replay": "./check C12 --replay <this file>  (executes the plan 20 times in fresh processes and compares fingerprints)"});
        let path = report::write_replay("C12", &format!("seed{}-repeat{}", seed, i), &body);
        println!("violation class=nondeterministic-replay: run {} gave different observations in two fresh processes under the same seeded schedule", i);
        report::print_violation("C12", &path);
        replay_path = Some(path);
        exit = 1;
    }
    if !harness_errors.is_empty() && exit == 0 {
        for e in harness_errors.iter().take(5) {
            eprintln!("harness error: {}", e);
        }
        exit = 2;
    }

    // one number for the whole batch: FNV over the per-run fingerprints in run order
    let mut fps = fingerprints.clone();
    fps.sort();
    let mut batch_fp = 0xcbf2_9ce4_8422_2325u64;
    for (i, f, _) in &fps {
        batch_fp = fnv_add(batch_fp, &i.to_le_bytes());
        batch_fp = fnv_add(batch_fp, &f.to_le_bytes());
    }
    let probe_state = std::env::var("VERIF_PROBE").unwrap_or_else(|_| "not run".into());
    if probe_state == "failed" {
        violations += 1;
    }
    if std::env::var("VERIF_MIRI_FAILED").is_ok() {
        violations += 1;
    }
    let miri_summary: Value = std::env::var("VERIF_MIRI_SUMMARY").ok().and_then(|p| std::fs::read_to_string(p).ok()).and_then(|t| crate::report::from_json(&t).ok()).unwrap_or(json!({"skipped": "not run"}));
    let wall = t0.elapsed().as_secs_f64();
    let site_names = site_names();
    let named = |v: &Vec<u64>| -> BTreeMap<String, u64> { v.iter().enumerate().filter(|(_, n)| **n > 0).map(|(i, n)| (site_names.get(&(i as u32)).cloned().unwrap_or(format!("site{}", i)), *n)).collect() };
    let cov = json!({
        "evaluations": done + sweep.pairs,
        "simulated_runs": done,
        "distinct_nontrivial": sigs.len(),
        "rule": "evaluations = simulated runs + agreement-sweep pairs (see agreement_sweep); distinct_nontrivial counts simulated runs only. One simulated run = one fresh OS process (1-4 caller threads under the baton scheduler, up to 40 operations each, seeded plan); non-trivial = at least two clients and at least one context switch inside an operation; distinct = distinct FNV signature of the (client, site, next client) sequence at context switches",
        "samples": samples,
        "nontrivial_runs": nontrivial_runs,
        "operations_executed": agg_ops,
        "operations_by_kind": ops_by_kind,
        "operation_status": status_counts,
        "agreement_sweep": {"pairs": sweep.pairs, "non_empty_results": sweep.non_empty, "errors_or_panics_on_all_four": sweep.errs, "disagreements": sweep.disagreements, "what": "the four entry points compared position by position on generated (document, query) pairs, in fresh chunk processes"},
        "cold_oracle_keys": cold_total,
        "cold_oracle_processes": cold_total,
        "corpora_used": corpora_used,
        "scheduler_steps": agg_steps,
        "context_switches": agg_switches,
        "context_switches_inside_an_operation": agg_intra,
        "yields_by_site": named(&yields_by_site),
        "switches_by_site": named(&switches_by_site),
        "faults": {
            "client_abort": {"what": "a caller thread unwinds out of the library at a schedule point", "planned": faults_planned, "fired": faults_fired, "fired_by_site": named(&aborts_by_site)},
            "clock_jump": {"what": "the run process' clock (behind the LD_PRELOAD seam) advances by 1 s to 1 year at a schedule point inside an operation", "fired": probes_sum.get("clock_jumps_fired").copied().unwrap_or(0), "runs_with_the_seam": probes_sum.get("runs_with_the_clock_seam_preloaded").copied().unwrap_or(0), "clock_reads_by_the_run_processes": probes_sum.get("clock_reads_by_the_run_processes").copied().unwrap_or(0)},
            "deep_caller_stack": {"what": "an operation is executed 0.25-3 MiB deeper in the caller's stack", "operations": deep_ops},
            "low_caller_stack": {"what": "an operation over a small document is executed with only 64-512 KiB of the caller's stack left (a small thread stack, or a caller deep in its own recursion)", "operations": low_stack_ops},
            "call_from_thread_local_destructor": {"what": "a client's last operation is made while its thread is being torn down, from the destructor of a thread-local value of the caller's own registered before one of its operations", "calls": probes_sum.get("calls_from_a_thread_local_destructor").copied().unwrap_or(0)},
            "document_dropped_and_rebuilt": {"rebuilds": probes_sum.get("doc_rebuilds").copied().unwrap_or(0), "at_the_same_address": probes_sum.get("doc_rebuilt_at_same_address").copied().unwrap_or(0)},
            "allocation_failure": {"what": "while an operation is inside the library the allocator refuses blocks of at least 256 B - 1 MiB; the process may abort (the run is then repeated without the fault) or the operation completes and is judged as usual", "operations_planned": alloc_fault_ops, "blocks_refused_in_runs_that_completed": probes_sum.get("allocations_refused_in_runs_that_completed").copied().unwrap_or(0), "runs_ended_by_the_fault_and_repeated_without_it": ALLOC_ABORTS.load(std::sync::atomic::Ordering::Relaxed)},
            "call_while_unwinding": {"what": "an operation is made from a Drop while a panic of the caller's own unwinds (std::thread::panicking() is true)", "calls": probes_sum.get("calls_made_while_the_caller_is_unwinding").copied().unwrap_or(0)},
            "environment": {"what": "environment variables (RUST_MIN_STACK, RUST_BACKTRACE, RUST_LOG, LANG, LC_ALL, TZ, HOME, TMPDIR, NO_COLOR, RAYON_NUM_THREADS, JSONPATH_*) differ from run to run and are changed between operations; the cold oracle runs in the driver's own environment", "runs_with_a_varied_environment": probes_sum.get("runs_with_a_varied_environment").copied().unwrap_or(0), "changes_between_operations": probes_sum.get("environment_variables_changed_between_calls").copied().unwrap_or(0)},
            "ambient_process_state": {"what": "just before an operation the run process' standard error becomes a pipe nobody reads, its soft RLIMIT_STACK is lowered (256 KiB - 1 MiB) or raised, or its working directory changes", "changes": probes_sum.get("ambient_process_state_changes").copied().unwrap_or(0)},
            "not_applicable": "network, disk: the library has no such surface"
        },
        "policies": policies,
        "document_representation": reprs,
        "clients_per_run": clients_hist,
        "probes": probes_sum,
        "first_library_call_of_process_by_kind": first_kinds,
        "send_sync_probe_crate": probe_state,
        "miri_layer": miri_summary,
        "runs_that_hit_the_step_cap": cap_hits,
        "runs_that_stalled_and_were_re_run_with_atomic_operations": STALLED_RUNS.load(std::sync::atomic::Ordering::Relaxed),
        "batch_fingerprint": format!("{:016x}", batch_fp),
        "determinism": {"runs_re_executed_in_a_second_process_at_7_workers": determinism_checked, "fingerprint_mismatches": determinism_mismatch.len()},
        "runs_per_hour": if wall_runs > 0.0 { (done as f64 / wall_runs * 3600.0) as u64 } else { 0 },
        "simulated_time": format!("{} scheduler steps (the system under test reads no clock)", agg_steps),
        "real_components": ["jsonpath-rust parser and evaluator", "impl Queryable for serde_json::Value", "pest", "regex", "serde_json", "std threads, thread-locals, allocator"],
        "stubbed_components": ["OS scheduling of caller threads (baton scheduler decides every hand-over)", "document store when representation = SimDoc", "a long-lived service (one process per run)"],
        "replay": replay_path.as_ref().map(|p| p.display().to_string()),
    });
    report::write_evidence(&report::Evidence {
        property: "C12".into(),
        tier: t.name.into(),
        seed,
        wall_s: wall,
        violations,
        coverage: cov,
        assumptions: vec![
            "the oracle is the library itself, cold: this decides history/schedule independence and entry-point agreement, not RFC correctness".into(),
            "interleavings are explored at schedule points only (operation boundaries, the Queryable seam, the guarded hooks)".into(),
            "Err results are compared as Err, not by message".into(),
        ],
    });
    println!(
        "C12 done: runs={} ops={} steps={} switches={} intra_op_switches={} nontrivial={} distinct_sigs={} cold_keys={} faults_fired={}/{} determinism={}/{} violations={} batch_fp={:016x} wall={:.1}s",
        done, agg_ops, agg_steps, agg_switches, agg_intra, nontrivial_runs, sigs.len(), cold_total, faults_fired, faults_planned, determinism_checked - determinism_mismatch.len() as u64, determinism_checked, violations, batch_fp, wall
    );
    exit
}

pub fn site_names() -> BTreeMap<u32, String> {
    let mut m = BTreeMap::new();
    for (i, n) in ["PARSE_ENTER", "PARSE_TREE", "EVAL_ENTER", "SEGMENT", "SELECTOR", "DESCEND", "FILTER_CHILD", "CMP_MID", "REGEX_PRE", "REGEX_POST", "CUSTOM_PRE", "REFERENCE", "NODE"].iter().enumerate() {
        m.insert(i as u32, format!("hook:{}", n));
    }
    for (i, n) in simdoc::ACC_NAMES.iter().enumerate() {
        m.insert(simdoc::SEAM_BASE + i as u32, format!("seam:{}", n));
    }
    m.insert(sched::SITE_OP_BEGIN, "op_begin".into());
    m.insert(sched::SITE_OP_END, "op_end".into());
    m
}

pub fn replay(body: &Value) -> i32 {
    let path = std::env::var("VERIF_REPLAY_PATH").unwrap_or_default();
    match body["kind"].as_str() {
        Some("c12-cold") => {
            let req: ColdReq = match serde_json::from_value(body["request"].clone()) {
                Ok(r) => r,
                Err(e) => {
                    eprintln!("harness error: bad replay file: {}", e);
                    return 2;
                }
            };
            match run_cold(&req) {
                Ok(c) => match c.disagreement {
                    Some(d) => {
                        println!("replayed: entry points disagree on query={} document={} — {}", req.query, req.content, d);
                        println!("VIOLATION property=C12 replay={}", path);
                        1
                    }
                    None => {
                        println!("replay: the entry points agree on this key on this tree");
                        0
                    }
                },
                Err(e) => {
                    eprintln!("harness error: {}", e);
                    2
                }
            }
        }
        Some("c12-repeat") => {
            let plan: Plan = match serde_json::from_value(body["plan"].clone()) {
                Ok(r) => r,
                Err(e) => {
                    eprintln!("harness error: bad replay file: {}", e);
                    return 2;
                }
            };
            let mut fps = BTreeSet::new();
            for _ in 0..20 {
                match run_plan(&plan, false) {
                    Ok(r) => {
                        fps.insert(r.fingerprint);
                    }
                    Err(e) => {
                        eprintln!("harness error: {}", e);
                        return 2;
                    }
                }
            }
            if fps.len() > 1 {
                println!("replayed: 20 executions of the same seeded plan gave {} different fingerprints", fps.len());
                println!("VIOLATION property=C12 replay={}", path);
                1
            } else {
                println!("replay: 20 executions gave one fingerprint");
                0
            }
        }
        Some("c12-run") => {
            let plan: Plan = match serde_json::from_value(body["plan"].clone()) {
                Ok(r) => r,
                Err(e) => {
                    eprintln!("harness error: bad replay file: {}", e);
                    return 2;
                }
            };
            let mut table: ColdTable = HashMap::new();
            for (kr, ct, q) in plan_keys_r(&plan) {
                let req = ColdReq { repr: kr, content: plan.contents[ct].clone(), query: plan.queries[q].clone() };
                match run_cold(&req) {
                    Ok(c) => {
                        table.insert((req.repr, req.content, req.query), c);
                    }
                    Err(e) => {
                        eprintln!("harness error: {}", e);
                        return 2;
                    }
                }
            }
            match run_plan(&plan, true) {
                Ok(r) => {
                    let ms = judge(&plan, &r, &table);
                    if r.sched.diverged {
                        println!("note: the recorded schedule could not be followed to the end on this tree (the run diverged)");
                    }
                    if let Some(m) = ms.first() {
                        println!("replayed: class={} op {} of client {} ({}) query={} expected={} observed={}", m.class, m.j, m.c, m.kind, m.query, m.expected.clone().unwrap_or_default(), m.observed.clone().unwrap_or_default());
                        println!("VIOLATION property=C12 replay={}", path);
                        1
                    } else {
                        println!("replay: every operation equals its cold result on this tree");
                        0
                    }
                }
                Err(e) if e.starts_with("crashed") => {
                    println!("replayed: the run process was killed — {}", e);
                    println!("VIOLATION property=C12 replay={}", path);
                    1
                }
                Err(e) => {
                    eprintln!("harness error: {}", e);
                    2
                }
            }
        }
        Some("c12-probe") => {
            println!("replay: re-run `./check C12 --tier quick`; the Send + Sync probe is a compile-time check");
            0
        }
        _ => {
            eprintln!("harness error: unknown C12 replay kind");
            2
        }
    }
}

/// `sim c12-plan <run index> [tier]`: prints the plan of one run of the batch (debugging aid).
pub fn plan_main(index: u64, tier_name: &str, seed: u64) -> i32 {
    let t = tier(tier_name);
    let epoch = index / 40_000;
    let corpus = gen_corpus(derive(seed, "corpus", epoch), t.families, t.q_per_fam);
    let (p, _) = gen_plan(&corpus, derive(seed, "run", index));
    println!("{}", serde_json::to_string(&p).unwrap());
    0
}

#[cfg(test)]
mod tests {
    use super::*;

    #[inline(never)]
    fn eat(n: usize) -> usize {
        let mut pad = [0u8; 1024];
        pad[n % 1024] = 1;
        let p = std::hint::black_box(&mut pad);
        if n == 0 {
            p[0] as usize
        } else {
            eat(n - 1) + p[1] as usize
        }
    }

    #[test]
    fn low_stack_leaves_what_it_says() {
        let h = std::thread::Builder::new()
            .stack_size(16 << 20)
            .spawn(|| {
                let low = stack_low();
                assert!(low != 0, "stack bounds unknown");
                for kib in [64usize, 112, 512] {
                    let left = until_remaining(kib, low, &mut || {
                        let probe = 0u8;
                        (&probe as *const u8 as usize) - low
                    });
                    assert!(left <= kib * 1024 + 8192 && left + 16 * 1024 >= kib * 1024, "asked {} KiB, left {} bytes", kib, left);
                    // and that much is really usable
                    until_remaining(kib, low, &mut || eat(kib / 2));
                }
            })
            .unwrap();
        h.join().unwrap();
    }
}
