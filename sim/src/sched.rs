//! Baton scheduler: client threads are real OS threads, but exactly one holds the baton at any
//! time and every hand-over is decided here, from the run's PRNG or from a recorded schedule.
use crate::rng::{fnv_add, Rng};
use serde::{Deserialize, Serialize};
use std::cell::RefCell;
use std::sync::{Arc, Condvar, Mutex};

pub const SITE_OP_BEGIN: u32 = 60;
pub const SITE_OP_END: u32 = 61;
pub const MAX_SITES: usize = 64;

#[derive(Clone, Debug, Serialize, Deserialize, PartialEq)]
pub enum Policy {
    /// at every schedule point switch to another client with probability p/1000
    Random { p: u32 },
    /// random priorities; at `changes` step numbers the running client drops to the lowest priority
    Pct { changes: Vec<u64> },
    /// switch only at operation boundaries
    RunToCompletion,
    /// gather the clients at one site: a client that reaches it parks until every other live client has
    /// reached it too (or finished); elsewhere a client runs on, switching only at operation boundaries
    Barrier { site: u32 },
}

#[derive(Clone, Debug, Serialize, Deserialize, PartialEq)]
pub struct Fault {
    pub c: usize,
    pub op: usize,
    /// the nth schedule point inside that operation (0-based) …
    pub nth: u32,
    /// … or, when a site is named, its nth occurrence inside that operation
    #[serde(default)]
    pub site: Option<u32>,
}

/// Payload of an injected client abort.
pub struct InjectedAbort;

/// A clock jump: at the nth schedule point of an operation the simulated clock advances.
#[derive(Clone, Debug, Serialize, Deserialize, PartialEq)]
pub struct Jump {
    pub c: usize,
    pub op: usize,
    pub nth: u32,
    pub secs: u64,
}

type AdvanceFn = extern "C" fn(i64);
type ReadsFn = extern "C" fn() -> u64;
static CLOCK_ADVANCE: std::sync::OnceLock<Option<AdvanceFn>> = std::sync::OnceLock::new();
static CLOCK_READS: std::sync::OnceLock<Option<ReadsFn>> = std::sync::OnceLock::new();

extern "C" {
    fn dlsym(handle: *mut std::ffi::c_void, symbol: *const std::ffi::c_char) -> *mut std::ffi::c_void;
}

/// The clock seam (simclock.so, preloaded into run processes), if present.
fn clock_advance_fn() -> Option<AdvanceFn> {
    *CLOCK_ADVANCE.get_or_init(|| unsafe {
        let p = dlsym(std::ptr::null_mut(), b"sim_clock_advance\0".as_ptr() as *const std::ffi::c_char);
        if p.is_null() {
            None
        } else {
            Some(std::mem::transmute::<*mut std::ffi::c_void, AdvanceFn>(p))
        }
    })
}

/// How many times anything in this process read a clock through libc (None without the seam).
pub fn clock_reads() -> Option<u64> {
    let f = *CLOCK_READS.get_or_init(|| unsafe {
        let p = dlsym(std::ptr::null_mut(), b"sim_clock_reads\0".as_ptr() as *const std::ffi::c_char);
        if p.is_null() {
            None
        } else {
            Some(std::mem::transmute::<*mut std::ffi::c_void, ReadsFn>(p))
        }
    });
    f.map(|f| f())
}

pub fn clock_seam_present() -> bool {
    clock_advance_fn().is_some()
}

#[derive(Clone, Debug, Serialize, Deserialize, Default)]
pub struct SchedStats {
    pub steps: u64,
    pub switches: u64,
    pub intra_op_switches: u64,
    pub yields_by_site: Vec<u64>,
    pub switches_by_site: Vec<u64>,
    pub aborts_fired_by_site: Vec<u64>,
    pub faults_fired: Vec<Fault>,
    #[serde(default)]
    pub clock_jumps_fired: u64,
    pub cap_hit: bool,
    pub diverged: bool,
    pub log_hash: u64,
    /// hash of the (client, site) sequence at context switches only
    pub switch_sig: u64,
}

struct Inner {
    current: Option<usize>,
    alive: Vec<bool>,
    rng: Rng,
    policy: Policy,
    prio: Vec<u64>,
    at_barrier: Vec<bool>,
    site_mask: u64,
    faults: Vec<Fault>,
    jumps: Vec<Jump>,
    follow: Option<Vec<u8>>,
    cursor: usize,
    record: Vec<u8>,
    full_log: Option<Vec<(u64, u8, u16, u8, u8)>>,
    stats: SchedStats,
    step_cap: u64,
}

pub struct Sched {
    inner: Mutex<Inner>,
    cvs: Vec<Condvar>,
    done: Condvar,
}

pub struct Ctx {
    pub sched: Arc<Sched>,
    pub id: usize,
    pub op: usize,
    pub in_op: bool,
    pub yields_in_op: u32,
    pub aborted_before: bool,
    pub site_counts: [u32; MAX_SITES],
}

thread_local! {
    static CTX: RefCell<Option<Ctx>> = const { RefCell::new(None) };
}

pub fn install_ctx(c: Ctx) {
    CTX.with(|x| *x.borrow_mut() = Some(c));
}
pub fn clear_ctx() {
    let _ = CTX.try_with(|x| *x.borrow_mut() = None);
}
/// None outside a scheduled client — and in a thread whose thread-locals are being torn down
/// (operations run from a thread-local destructor: no schedule points there).
pub fn with_ctx<R>(f: impl FnOnce(&mut Ctx) -> R) -> Option<R> {
    CTX.try_with(|x| x.borrow_mut().as_mut().map(f)).ok().flatten()
}

/// Called from the repository's hooks and from the SimDoc seam. Outside a scheduled client it is a no-op.
pub fn yield_point(site: u32) {
    let info = CTX
        .try_with(|x| {
            let mut b = x.borrow_mut();
            match b.as_mut() {
                None => None,
                Some(c) => {
                    let k = c.yields_in_op;
                    let ks = c.site_counts[(site as usize).min(MAX_SITES - 1)];
                    Some((c.sched.clone(), c.id, c.op, c.in_op, k, ks))
                }
            }
        })
        .ok()
        .flatten();
    let Some((sched, id, op, in_op, k, ks)) = info else { return };
    // count before stepping: an injected abort unwinds out of `step`
    let _ = CTX.try_with(|x| {
        if let Some(c) = x.borrow_mut().as_mut() {
            if sched.site_enabled(site) {
                c.yields_in_op += 1;
                c.site_counts[(site as usize).min(MAX_SITES - 1)] += 1;
            }
        }
    });
    sched.step(id, op, in_op, k, ks, site);
}

impl Sched {
    pub fn new(n: usize, seed: u64, policy: Policy, site_mask: u64, faults: Vec<Fault>, jumps: Vec<Jump>, follow: Option<Vec<u8>>, keep_log: bool, step_cap: u64) -> Arc<Sched> {
        let mut rng = Rng::new(seed);
        let mut prio: Vec<u64> = (0..n as u64).map(|i| 1000 + i).collect();
        rng.shuffle(&mut prio);
        Arc::new(Sched {
            inner: Mutex::new(Inner {
                current: None,
                alive: vec![true; n],
                rng,
                policy,
                prio,
                at_barrier: vec![false; n],
                site_mask,
                faults,
                jumps,
                follow,
                cursor: 0,
                record: vec![],
                full_log: if keep_log { Some(vec![]) } else { None },
                stats: SchedStats { yields_by_site: vec![0; MAX_SITES], switches_by_site: vec![0; MAX_SITES], aborts_fired_by_site: vec![0; MAX_SITES], log_hash: 0xcbf2_9ce4_8422_2325, switch_sig: 0xcbf2_9ce4_8422_2325, ..Default::default() },
                step_cap,
            }),
            cvs: (0..n).map(|_| Condvar::new()).collect(),
            done: Condvar::new(),
        })
    }

    /// Main thread: hand the baton to the first client.
    pub fn start(&self) {
        let mut g = self.inner.lock().unwrap();
        let n = g.alive.len();
        let first = match g.follow.as_ref().and_then(|f| f.get(g.cursor).copied()) {
            Some(c) if (c as usize) < n => {
                g.cursor += 1;
                c as usize
            }
            _ => match g.policy {
                Policy::Pct { .. } => (0..n).max_by_key(|i| g.prio[*i]).unwrap(),
                _ => g.rng.below(n),
            },
        };
        g.record.push(first as u8);
        g.current = Some(first);
        self.cvs[first].notify_one();
    }

    /// Client thread: block until the baton arrives.
    pub fn wait_turn(&self, me: usize) {
        let mut g = self.inner.lock().unwrap();
        while g.current != Some(me) {
            g = self.cvs[me].wait(g).unwrap();
        }
    }

    /// Main thread: block until every client has finished.
    pub fn wait_done(&self) {
        let mut g = self.inner.lock().unwrap();
        while g.alive.iter().any(|a| *a) {
            g = self.done.wait(g).unwrap();
        }
    }

    fn pick_other(g: &mut Inner, me: usize, include_me: bool) -> usize {
        let cands: Vec<usize> = (0..g.alive.len()).filter(|i| g.alive[*i] && (include_me || *i != me)).collect();
        if cands.is_empty() {
            me
        } else {
            cands[g.rng.below(cands.len())]
        }
    }

    fn decide(g: &mut Inner, me: usize, site: u32) -> usize {
        let n_alive = g.alive.iter().filter(|a| **a).count();
        if let Some(f) = &g.follow {
            if let Some(c) = f.get(g.cursor).copied() {
                g.cursor += 1;
                let c = c as usize;
                if c < g.alive.len() && g.alive[c] {
                    return c;
                }
                g.stats.diverged = true;
                return me;
            }
            g.stats.diverged = true;
            return me;
        }
        if n_alive <= 1 || g.stats.cap_hit {
            return me;
        }
        match g.policy.clone() {
            Policy::Random { p } => {
                if (g.rng.below(1000) as u32) < p {
                    Self::pick_other(g, me, false)
                } else {
                    me
                }
            }
            Policy::RunToCompletion => {
                if site == SITE_OP_BEGIN || site == SITE_OP_END {
                    Self::pick_other(g, me, true)
                } else {
                    me
                }
            }
            Policy::Barrier { site: bs } => {
                if site == bs {
                    g.at_barrier[me] = true;
                    let waiting: Vec<usize> = (0..g.alive.len()).filter(|i| g.alive[*i] && !g.at_barrier[*i]).collect();
                    if waiting.is_empty() {
                        // everyone is here: open the barrier
                        for b in g.at_barrier.iter_mut() {
                            *b = false;
                        }
                        me
                    } else {
                        waiting[g.rng.below(waiting.len())]
                    }
                } else if site == SITE_OP_BEGIN || site == SITE_OP_END {
                    // prefer a client that is not parked at the barrier
                    let free: Vec<usize> = (0..g.alive.len()).filter(|i| g.alive[*i] && !g.at_barrier[*i]).collect();
                    if free.is_empty() {
                        for b in g.at_barrier.iter_mut() {
                            *b = false;
                        }
                        Self::pick_other(g, me, true)
                    } else {
                        free[g.rng.below(free.len())]
                    }
                } else {
                    me
                }
            }
            Policy::Pct { changes } => {
                if changes.contains(&g.stats.steps) {
                    let low = g.prio.iter().copied().min().unwrap_or(1);
                    g.prio[me] = low.saturating_sub(1);
                }
                (0..g.alive.len()).filter(|i| g.alive[*i]).max_by_key(|i| g.prio[*i]).unwrap_or(me)
            }
        }
    }

    pub fn site_enabled(&self, site: u32) -> bool {
        let g = self.inner.lock().unwrap();
        !((site as usize) < MAX_SITES && g.site_mask & (1u64 << site) == 0)
    }

    /// One schedule point. Returns false if the site is disabled in this run.
    fn step(&self, me: usize, op: usize, in_op: bool, k: u32, ks: u32, site: u32) -> bool {
        let mut g = self.inner.lock().unwrap();
        if (site as usize) < MAX_SITES && g.site_mask & (1u64 << site) == 0 {
            return false;
        }
        debug_assert_eq!(g.current, Some(me));
        g.stats.steps += 1;
        let s = (site as usize).min(MAX_SITES - 1);
        g.stats.yields_by_site[s] += 1;
        if g.stats.steps > g.step_cap {
            g.stats.cap_hit = true;
        }
        // injected client abort?
        if in_op {
            if let Some(pos) = g.faults.iter().position(|f| f.c == me && f.op == op && match f.site { None => f.nth == k, Some(fs) => fs == site && f.nth == ks }) {
                let f = g.faults.remove(pos);
                g.stats.faults_fired.push(f);
                g.stats.aborts_fired_by_site[s] += 1;
                g.stats.log_hash = fnv_add(g.stats.log_hash, &[0xFA, me as u8, site as u8]);
                g.record.push(me as u8);
                if g.follow.is_some() {
                    g.cursor += 1;
                }
                let st = g.stats.steps;
                if let Some(l) = g.full_log.as_mut() {
                    l.push((st, me as u8, op as u16, site as u8, 0xFA));
                }
                drop(g);
                std::panic::panic_any(InjectedAbort);
            }
        }
        // injected clock jump? (the system under test keeps running; only its clock moves)
        if in_op {
            if let Some(pos) = g.jumps.iter().position(|j| j.c == me && j.op == op && j.nth == k) {
                let j = g.jumps.remove(pos);
                if let Some(f) = clock_advance_fn() {
                    f((j.secs as i64).saturating_mul(1_000_000_000));
                    g.stats.clock_jumps_fired += 1;
                }
            }
        }
        let next = Self::decide(&mut g, me, site);
        g.record.push(next as u8);
        g.stats.log_hash = fnv_add(g.stats.log_hash, &[me as u8, (op & 0xff) as u8, site as u8, next as u8]);
        let st = g.stats.steps;
        if let Some(l) = g.full_log.as_mut() {
            l.push((st, me as u8, op as u16, site as u8, next as u8));
        }
        if next != me {
            g.stats.switches += 1;
            g.stats.switches_by_site[s] += 1;
            g.stats.switch_sig = fnv_add(g.stats.switch_sig, &[me as u8, site as u8, next as u8]);
            if in_op && site != SITE_OP_BEGIN && site != SITE_OP_END {
                g.stats.intra_op_switches += 1;
            }
            g.current = Some(next);
            self.cvs[next].notify_one();
            while g.current != Some(me) {
                g = self.cvs[me].wait(g).unwrap();
            }
        }
        true
    }

    /// Client thread has no more operations.
    pub fn finish(&self, me: usize) {
        let mut g = self.inner.lock().unwrap();
        g.alive[me] = false;
        let cands: Vec<usize> = (0..g.alive.len()).filter(|i| g.alive[*i]).collect();
        if cands.is_empty() {
            g.current = None;
            self.done.notify_all();
            return;
        }
        let next = match g.follow.as_ref().and_then(|f| f.get(g.cursor).copied()) {
            Some(c) if (c as usize) < g.alive.len() && g.alive[c as usize] => {
                g.cursor += 1;
                c as usize
            }
            Some(_) => {
                g.cursor += 1;
                g.stats.diverged = true;
                cands[0]
            }
            None => {
                if g.follow.is_some() {
                    g.stats.diverged = true;
                    cands[0]
                } else {
                    match g.policy {
                        Policy::Pct { .. } => *cands.iter().max_by_key(|i| g.prio[**i]).unwrap(),
                        _ => cands[g.rng.below(cands.len())],
                    }
                }
            }
        };
        g.record.push(next as u8);
        g.stats.log_hash = fnv_add(g.stats.log_hash, &[0xFE, me as u8, next as u8]);
        g.stats.switches += 1;
        g.current = Some(next);
        self.cvs[next].notify_one();
        self.done.notify_all();
    }

    pub fn stats(&self) -> SchedStats {
        self.inner.lock().unwrap().stats.clone()
    }
    pub fn recorded(&self) -> Vec<u8> {
        self.inner.lock().unwrap().record.clone()
    }
    pub fn full_log(&self) -> Vec<(u64, u8, u16, u8, u8)> {
        self.inner.lock().unwrap().full_log.clone().unwrap_or_default()
    }
}

/// run-length encoding of a schedule: "c*n,c*n,…"
pub fn rle(v: &[u8]) -> String {
    let mut out = String::new();
    let mut i = 0;
    while i < v.len() {
        let mut j = i;
        while j < v.len() && v[j] == v[i] {
            j += 1;
        }
        if !out.is_empty() {
            out.push(',');
        }
        out.push_str(&format!("{}*{}", v[i], j - i));
        i = j;
    }
    out
}

pub fn unrle(s: &str) -> Option<Vec<u8>> {
    let mut out = vec![];
    if s.is_empty() {
        return Some(out);
    }
    for part in s.split(',') {
        let (c, n) = part.split_once('*')?;
        let c: u8 = c.parse().ok()?;
        let n: usize = n.parse().ok()?;
        out.extend(std::iter::repeat(c).take(n));
    }
    Some(out)
}
