//! C15 — evaluation depends only on the Queryable view of the data.
//! The real engine runs over a stubbed store (SimDoc) under every personality (the configuration
//! axis) and is compared with the same query over the equivalent serde_json::Value; a second class
//! of runs does the same under the baton scheduler with client aborts (shared with C12's machinery).
use crate::c12;
use crate::gen::{self, DocParams, QGen};
use crate::npath::{self, Step};
use crate::report;
use crate::rng::{derive, Rng};
use crate::simdoc::{self, FatDoc, Personality, ShareDoc, Sim, SimDoc};
use jsonpath_rust::JsonPath;
use serde::{Deserialize, Serialize};
use serde_json::{json, Value};
use std::collections::{BTreeMap, BTreeSet, HashMap};

#[derive(Clone, Debug, Serialize, Deserialize)]
pub struct Case {
    pub personality: u8,
    pub doc: Value,
    pub query: String,
    /// the stub with the large node type (about half a kilobyte per node)
    #[serde(default)]
    pub fat: bool,
    /// the stub with structural sharing and flyweight constants
    #[serde(default)]
    pub shared: bool,
    /// the stub with every object's members in an order of its own (seed); results compared as multisets
    #[serde(default)]
    pub shuffled: Option<u64>,
    /// the stub that holds non-negative integers in its unsigned form (two integer forms, one per number)
    #[serde(default)]
    pub posint: bool,
    /// simdoc::MODE_ROTATE (every as_object call starts at another member; multiset comparison) or
    /// simdoc::MODE_LISTMAP (lists also answer as_object with their positions as keys)
    #[serde(default)]
    pub mode: u8,
}

#[derive(Clone, Debug, Serialize, Deserialize)]
pub struct Diff {
    /// ok-err-differs | length-differs | path-differs | value-differs | location-differs | foreign-reference | panic-differs
    pub class: String,
    pub detail: String,
}

fn sim_locs<const P: usize>(v: &Sim<P>, cur: &mut Vec<Step>, out: &mut HashMap<usize, String>) {
    out.insert(v as *const Sim<P> as usize, npath::loc_str(cur));
    for (st, x) in v.children() {
        cur.push(st);
        sim_locs(x, cur, out);
        cur.pop();
    }
}

fn val_locs(v: &Value, cur: &mut Vec<Step>, out: &mut HashMap<usize, String>) {
    out.insert(v as *const Value as usize, npath::loc_str(cur));
    match v {
        Value::Array(a) => {
            for (i, x) in a.iter().enumerate() {
                cur.push(Step::Idx(i));
                val_locs(x, cur, out);
                cur.pop();
            }
        }
        Value::Object(o) => {
            for (k, x) in o {
                cur.push(Step::Name(k.clone()));
                val_locs(x, cur, out);
                cur.pop();
            }
        }
        _ => {}
    }
}

/// Result over Value: Err, Panic, or the list of (location, path, value).
pub type Canon = Result<Vec<(String, String, Value)>, String>;

pub fn eval_value(doc: &Value, q: &str) -> Canon {
    let mut locs = HashMap::new();
    val_locs(doc, &mut vec![], &mut locs);
    let r = std::panic::catch_unwind(std::panic::AssertUnwindSafe(|| doc.query_with_path(q)));
    match r {
        Err(_) => Err("Panic".into()),
        Ok(Err(_)) => Err("Err".into()),
        Ok(Ok(res)) => Ok(res
            .into_iter()
            .map(|r| {
                let path = r.clone().path();
                let n: &Value = r.val();
                (locs.get(&(n as *const Value as usize)).cloned().unwrap_or("FOREIGN".into()), path, n.clone())
            })
            .collect()),
    }
}

pub struct SimEval {
    pub canon: Canon,
    pub counts: [u64; simdoc::N_ACC],
    pub trace: u64,
}

pub fn eval_sim<const P: usize>(doc: &Sim<P>, locs: &HashMap<usize, String>, p: Personality, q: &str) -> SimEval {
    simdoc::set_personality(p);
    let _ = simdoc::take_counts();
    let _ = simdoc::take_trace();
    let r = std::panic::catch_unwind(std::panic::AssertUnwindSafe(|| doc.query_with_path(q)));
    let canon = match r {
        Err(_) => Err("Panic".into()),
        Ok(Err(_)) => Err("Err".into()),
        Ok(Ok(res)) => Ok(res
            .into_iter()
            .map(|r| {
                let path = r.clone().path();
                let n: &Sim<P> = r.val();
                (locs.get(&(n as *const Sim<P> as usize)).cloned().unwrap_or("FOREIGN".into()), path, n.to_value())
            })
            .collect()),
    };
    SimEval { canon, counts: simdoc::take_counts(), trace: simdoc::take_trace() }
}

/// Over the sharing stub a node's address is not its position, so the location column is either
/// `SHARED` (a legitimate address of the document) or `FOREIGN`.
pub fn eval_shared(doc: &ShareDoc, p: Personality, q: &str) -> Canon {
    simdoc::set_personality(p);
    let mut addrs = std::collections::HashSet::new();
    doc.addresses(&mut addrs);
    let r = std::panic::catch_unwind(std::panic::AssertUnwindSafe(|| doc.query_with_path(q)));
    match r {
        Err(_) => Err("Panic".into()),
        Ok(Err(_)) => Err("Err".into()),
        Ok(Ok(res)) => Ok(res
            .into_iter()
            .map(|r| {
                let path = r.clone().path();
                let n: &ShareDoc = r.val();
                (if addrs.contains(&(n as *const ShareDoc as usize)) { "SHARED".to_string() } else { "FOREIGN".to_string() }, path, n.to_value())
            })
            .collect()),
    }
}

/// Order-insensitive comparison, for a stub whose member order differs from Value's: the same
/// (path, value) pairs with the same multiplicities.
/// A query made of names, indexes, slices and unions of those only never enumerates the members of an
/// object, so its result order cannot depend on the order an implementation lists members in.
pub fn member_order_independent(q: &str) -> bool {
    !q.contains('*') && !q.contains("..") && !q.contains('?')
}

/// For the member-order-shuffled stub: paths and values position by position when the query's order
/// cannot depend on member order, as multisets otherwise.
pub fn compare_shuffled(q: &str, want: &Canon, got: &Canon) -> Option<Diff> {
    // A nodelist argument of a function is spliced into its argument list in enumeration order, so
    // *which* nodes such a query selects may depend on the order in which an object lists its members
    // (`nin(@.a, $.x[*])`): RFC 9535 leaves that order open, and so must this comparison.
    if !member_order_independent(q) && ["in(", "nin(", "none_of(", "any_of(", "subset_of("].iter().any(|n| q.contains(n)) {
        return None;
    }
    if member_order_independent(q) {
        if let (Ok(w), Ok(g)) = (want, got) {
            if w.len() == g.len() {
                for i in 0..w.len() {
                    if w[i].1 != g[i].1 || w[i].2 != g[i].2 {
                        return Some(Diff { class: "order-differs".into(), detail: format!("the query enumerates no object members, yet result {} is {} over Value and {} over the member-order-shuffled implementation", i, w[i].1, g[i].1) });
                    }
                }
            }
        }
    }
    compare_multiset(want, got)
}

pub fn compare_multiset(want: &Canon, got: &Canon) -> Option<Diff> {
    match (want, got) {
        (Ok(w), Ok(g)) => {
            let key = |x: &(String, String, Value)| (x.1.clone(), x.2.to_string());
            let mut a: Vec<(String, String)> = w.iter().map(key).collect();
            let mut b: Vec<(String, String)> = g.iter().map(key).collect();
            a.sort();
            b.sort();
            if g.iter().any(|x| x.0 == "FOREIGN") {
                return Some(Diff { class: "foreign-reference".into(), detail: "a result is not a reference into the document that was passed in".into() });
            }
            if a != b {
                let only_v: Vec<&(String, String)> = a.iter().filter(|x| !b.contains(x)).take(3).collect();
                let only_s: Vec<&(String, String)> = b.iter().filter(|x| !a.contains(x)).take(3).collect();
                return Some(Diff { class: "set-differs".into(), detail: format!("as multisets of (path, value): Value has {} results, the member-order-shuffled implementation {}; only over Value: {:?}; only over the stub: {:?}", a.len(), b.len(), only_v, only_s) });
            }
            None
        }
        _ => compare(want, got),
    }
}

pub fn compare(want: &Canon, got: &Canon) -> Option<Diff> {
    match (want, got) {
        (Err(a), Err(b)) => {
            if a == b {
                None
            } else {
                Some(Diff { class: "panic-differs".into(), detail: format!("Value gives {} but the second implementation gives {}", a, b) })
            }
        }
        (Ok(_), Err(b)) => Some(Diff { class: "ok-err-differs".into(), detail: format!("Value gives Ok but the second implementation gives {}", b) }),
        (Err(a), Ok(_)) => Some(Diff { class: "ok-err-differs".into(), detail: format!("Value gives {} but the second implementation gives Ok", a) }),
        (Ok(w), Ok(g)) => {
            if w.len() != g.len() {
                return Some(Diff { class: "length-differs".into(), detail: format!("Value selects {} nodes {:?}, the second implementation {} nodes {:?}", w.len(), w.iter().map(|x| &x.1).collect::<Vec<_>>(), g.len(), g.iter().map(|x| &x.1).collect::<Vec<_>>()) });
            }
            for i in 0..w.len() {
                if g[i].0 == "FOREIGN" {
                    return Some(Diff { class: "foreign-reference".into(), detail: format!("result {} ({}) is not a reference into the document that was passed in", i, g[i].1) });
                }
                if w[i].1 != g[i].1 {
                    return Some(Diff { class: "path-differs".into(), detail: format!("result {}: Value reports {} but the second implementation reports {}", i, w[i].1, g[i].1) });
                }
                if w[i].2 != g[i].2 {
                    return Some(Diff { class: "value-differs".into(), detail: format!("result {} at {}: Value gives {} but the second implementation gives {}", i, w[i].1, w[i].2, g[i].2) });
                }
                if w[i].0 != g[i].0 && g[i].0 != "SHARED" {
                    return Some(Diff { class: "location-differs".into(), detail: format!("result {} at {}: the nodes returned sit at different locations ({} vs {})", i, w[i].1, w[i].0, g[i].0) });
                }
            }
            None
        }
    }
}

pub fn check_case(c: &Case) -> Option<Diff> {
    let want = eval_value(&c.doc, &c.query);
    let mut locs = HashMap::new();
    if let Some(seed) = c.shuffled {
        let sd: SimDoc = SimDoc::from_value_shuffled(&c.doc, seed);
        let mut locs = HashMap::new();
        sim_locs(&sd, &mut vec![], &mut locs);
        let got = eval_sim(&sd, &locs, Personality(c.personality), &c.query);
        return compare_shuffled(&c.query, &want, &got.canon);
    }
    if c.shared {
        let sd = ShareDoc::from_value(&c.doc);
        let got = eval_shared(&sd, Personality(c.personality), &c.query);
        return compare(&want, &got);
    }
    if c.mode != 0 {
        let sd = SimDoc::from_value(&c.doc);
        sim_locs(&sd, &mut vec![], &mut locs);
        simdoc::set_mode(c.mode);
        let got = eval_sim(&sd, &locs, Personality(c.personality), &c.query);
        simdoc::set_mode(0);
        return if c.mode & simdoc::MODE_ROTATE != 0 { compare_shuffled(&c.query, &want, &got.canon) } else { compare(&want, &got.canon) };
    }
    let got = if c.fat {
        let sd = FatDoc::from_value(&c.doc);
        sim_locs(&sd, &mut vec![], &mut locs);
        eval_sim(&sd, &locs, Personality(c.personality), &c.query)
    } else {
        let sd = if c.posint { SimDoc::from_value_posint(&c.doc) } else { SimDoc::from_value(&c.doc) };
        sim_locs(&sd, &mut vec![], &mut locs);
        eval_sim(&sd, &locs, Personality(c.personality), &c.query)
    };
    compare(&want, &got.canon)
}

fn shrink_doc(c: &Case, class: &str) -> Case {
    fn cands(v: &Value) -> Vec<Value> {
        let mut out = vec![];
        match v {
            Value::Array(a) => {
                for i in 0..a.len() {
                    let mut b = a.clone();
                    b.remove(i);
                    out.push(Value::Array(b));
                }
                for i in 0..a.len() {
                    for x in cands(&a[i]) {
                        let mut b = a.clone();
                        b[i] = x;
                        out.push(Value::Array(b));
                    }
                }
            }
            Value::Object(o) => {
                let keys: Vec<String> = o.keys().cloned().collect();
                for k in &keys {
                    let mut b = o.clone();
                    b.remove(k);
                    out.push(Value::Object(b));
                }
                for k in &keys {
                    for x in cands(&o[k]) {
                        let mut b = o.clone();
                        b.insert(k.clone(), x);
                        out.push(Value::Object(b));
                    }
                }
            }
            _ => {}
        }
        out
    }
    let mut cur = c.clone();
    let mut rounds = 0;
    loop {
        rounds += 1;
        let mut progressed = false;
        for d in cands(&cur.doc) {
            let cand = Case { personality: cur.personality, doc: d, query: cur.query.clone(), fat: cur.fat, shared: cur.shared, shuffled: cur.shuffled, posint: cur.posint, mode: cur.mode };
            if check_case(&cand).map(|x| x.class == class).unwrap_or(false) {
                cur = cand;
                progressed = true;
                break;
            }
        }
        if !progressed || rounds > 300 {
            break;
        }
    }
    // a shorter query that still shows it, then the document again
    for _ in 0..40 {
        let mut progressed = false;
        for q in gen::shrink_query(&cur.query) {
            let cand = Case { personality: cur.personality, doc: cur.doc.clone(), query: q, fat: cur.fat, shared: cur.shared, shuffled: cur.shuffled, posint: cur.posint, mode: cur.mode };
            if check_case(&cand).map(|x| x.class == class).unwrap_or(false) {
                cur = cand;
                progressed = true;
                break;
            }
        }
        if !progressed {
            break;
        }
    }
    for _ in 0..100 {
        let mut progressed = false;
        for d in cands(&cur.doc) {
            let cand = Case { personality: cur.personality, doc: d, query: cur.query.clone(), fat: cur.fat, shared: cur.shared, shuffled: cur.shuffled, posint: cur.posint, mode: cur.mode };
            if check_case(&cand).map(|x| x.class == class).unwrap_or(false) {
                cur = cand;
                progressed = true;
                break;
            }
        }
        if !progressed {
            break;
        }
    }
    // a plainer stub that still shows it
    if cur.fat || cur.shared {
        let cand = Case { personality: cur.personality, doc: cur.doc.clone(), query: cur.query.clone(), fat: false, shared: false, shuffled: cur.shuffled, posint: cur.posint, mode: cur.mode };
        if check_case(&cand).map(|x| x.class == class).unwrap_or(false) {
            cur = cand;
        }
    }
    // a simpler personality that still shows it
    for bit in [32u8, 16, 8, 4, 2, 1] {
        if cur.personality & bit != 0 {
            let cand = Case { personality: cur.personality & !bit, doc: cur.doc.clone(), query: cur.query.clone(), fat: cur.fat, shared: cur.shared, shuffled: cur.shuffled, posint: cur.posint, mode: cur.mode };
            if check_case(&cand).map(|x| x.class == class).unwrap_or(false) {
                cur = cand;
            }
        }
    }
    cur
}

pub struct TierCfg {
    pub name: &'static str,
    pub families: u64,
    pub q_per_fam: usize,
    pub threaded_runs: u64,
}

pub fn tier(name: &str) -> TierCfg {
    match name {
        "thorough" => TierCfg { name: "thorough", families: 70_000, q_per_fam: 100, threaded_runs: 60_000 },
        _ => TierCfg { name: "quick", families: 5000, q_per_fam: 60, threaded_runs: 3_000 },
    }
}

struct FamOut {
    evals: u64,
    fat_evals: u64,
    posint_evals: u64,
    mode_evals: u64,
    shared_evals: u64,
    shuffled_evals: u64,
    nonempty: u64,
    shapes: BTreeSet<(u8, u64)>,
    counts: [u64; simdoc::N_ACC],
    by_pers: [u64; 256],
    errs: u64,
    first: Option<(u64, Case, Diff)>,
    n_viol: u64,
    sample: Option<Value>,
    classes: BTreeMap<String, u64>,
}

fn run_family(seed: u64, f: u64, q_per_fam: usize) -> FamOut {
    let mut out = FamOut { evals: 0, fat_evals: 0, posint_evals: 0, mode_evals: 0, shared_evals: 0, shuffled_evals: 0, nonempty: 0, shapes: BTreeSet::new(), counts: [0; simdoc::N_ACC], by_pers: [0; 256], errs: 0, first: None, n_viol: 0, sample: None, classes: BTreeMap::new() };
    let mut rng = Rng::new(derive(seed, "c15fam", f));
    let p = match f % 11 {
        3 => DocParams { max_nodes: 60 + rng.below(60), max_depth: 2 + rng.below(2), names: gen::NAMES_C15, max_width: 14, long_arrays: true, mixed_names: false },
        7 => DocParams { max_nodes: 40 + rng.below(40), max_depth: 8 + rng.below(6), names: gen::NAMES_C15, max_width: 3, long_arrays: false, mixed_names: false },
        _ => DocParams { max_nodes: 8 + rng.below(23), max_depth: 1 + rng.below(4), names: gen::NAMES_C15, max_width: 4, long_arrays: true, mixed_names: false },
    };
    let mut base = gen::gen_doc(&mut rng, &p);
    if f % 5 == 0 {
        base = json!({"elems": [gen::scalar(&mut rng), "a", "ab", ["a", "b"], ["x", 1, 1.0], {"a": "xay", "b": 1}], "list": ["a", "b", 1, 1.5], "x": {"a": "ab", "b": [1, 2, 3]}, "a": base});
    }
    let mut docs = vec![base.clone()];
    for _ in 0..(1 + rng.below(2)) {
        docs.push(gen::perturb_leaf(&mut rng, &base));
    }
    if f % 6 == 1 {
        // the same subtree at several positions: what a sharing implementation stores once
        let sub = base.clone();
        docs.push(json!({"dflt": sub, "jobs": [{"cfg": sub, "on": true, "off": false, "none": null}, {"cfg": sub, "on": true, "x": null}], "flags": {"a": true, "b": true, "c": null, "d": null}}));
    }
    if f % 17 == 3 {
        // integers next to 2^53 and 2^31, against float-spelled and integer-spelled literals
        docs.push(json!({"a": [9007199254740993i64, 9007199254740992i64, 9007199254740991i64, -9007199254740993i64, 2147483648i64, 2147483647, 9007199254740992.0, 1e300, 0, -0.0], "n": 9007199254740993i64, "m": 9007199254740992.0}));
        // and integers that only u64 holds
        docs.push(json!({"a": [18446744073709551615u64, 9223372036854775808u64, 9223372036854775807i64, 1, 1.5, -1], "n": 18446744073709551615u64, "m": 9223372036854775808u64}));
    }
    if f % 11 == 4 {
        // lists of 70-120 numbers in which an integer and the float of the same value, and 2^53 and
        // 2^53+1, sit far apart (membership in long lists)
        let n = 70 + rng.below(51);
        let mut big: Vec<Value> = (0..n).map(|i| if i % 3 == 0 { json!(i as f64 + 0.5) } else { json!(i as i64 * 7) }).collect();
        big[5] = json!(1.0);
        big[n - 3] = json!(9007199254740992i64);
        big[n / 2] = json!("x");
        docs.push(json!({"big": big, "ints": [1, 9007199254740993i64, 14], "sets": [[1], [1.0], [9007199254740993i64], ["x"], [14, 7]], "one": 1, "f": 1.0}));
    }
    if f % 13 == 5 {
        // the same document under 40-159 levels of nesting (beyond 127 only a Value built in code gets
        // there: serde_json's parser stops at 128, and a Value-only shortcut might stop with it)
        let levels = 40 + rng.below(120);
        let mut v = base.clone();
        for i in 0..levels {
            v = if (i + f as usize) % 3 == 0 { json!({ "k": v }) } else { json!([v]) };
        }
        docs.push(v);
    }
    let mut names = vec![];
    gen::names_of(&base, &mut names);
    let g = QGen { names: &names, fancy: true, regex: true, ext: true, safe_quotes: true, reenter: false, unknown_fn: true };
    let mut queries: Vec<String> = vec![];
    for _ in 0..q_per_fam {
        let t = rng.weighted(&[3, 4, 3]);
        let q = g.query(&mut rng, t);
        queries.push(if rng.chance(1, 12) { gen::invalidate(&mut rng, &q) } else { q });
    }
    if f % 5 == 0 {
        // two string nodes compared with each other, one a prefix / an infix of the other (the sharing
        // stub keeps such strings in one buffer)
        for q in ["$.elems[?@ == $.x.a]", "$.elems[?@ != $.x.a]", "$.list[?@ == $.elems[2]]", "$.elems[?@ == $.list[0]]", "$..[?@.a == $.x.a]", "$.elems[?@ <= $.x.a]", "$.elems[?@ >= $.elems[5].a]", "$..[?@ == $.elems[1]]", "$[?@.a == $.elems[2]]"] {
            queries.push(q.to_string());
        }
    }
    if f % 6 == 1 {
        for q in ["$..[?count(@.*) == 4]", "$.jobs[?count(@.*) >= 3]", "$[?count(@..*) > 10]", "$..[?count(@[*]) == 2]", "$..[?count(@.*) == 2]", "$.jobs[?count(@['on','off','none']) == 3]", "$[?count(@.*) != count(@..*)]", "$.jobs[?@.cfg == $.dflt]", "$.jobs[?@.cfg != $.dflt]", "$[?@ == $.dflt]", "$.jobs[?@ == $.jobs[0]]", "$.jobs[?@.cfg == @.cfg]", "$..[?@ == $.flags]"] {
            queries.push(q.to_string());
        }
    }
    if f % 17 == 3 {
        for lit in ["9007199254740992.0", "9007199254740993", "9007199254740992", "2147483648.0", "9.007199254740992e15", "-9007199254740992.0", "0.0", "-0.0"] {
            for op in ["==", "<", ">=", "!="] {
                queries.push(format!("$.a[?@ {} {}]", op, lit));
            }
        }
        for q in ["$.a[?@ > 1]", "$.a[?@ >= $.m]", "$.a[?@ == $.n]", "$.a[?@ < $.n]", "$.a[?@ != $.m]", "$.a[?@ > 1.5]", "$[?@ > 1e19]", "$.a[?@ <= 1e19]"] {
            queries.push(q.to_string());
        }
        queries.push("$[?@ == $.n]".to_string());
        queries.push("$.a[?@ == $.m]".to_string());
        queries.push("$.a[?@ < $.n]".to_string());
    }
    if f % 11 == 4 {
        for q in ["$.sets[?in(1, @)]", "$.sets[?in(14, @)]", "$.sets[?nin(7, @)]", "$[?in(1, $.ints)]", "$[?in(@, $.ints)]", "$.sets[?in(1.5, @)]", "$.sets[?in('x', @)]", "$.sets[?any_of(@, $.big)]", "$.sets[?none_of(@, $.big)]", "$.sets[?subset_of(@, $.big)]", "$[?in(@, $.big)]", "$.ints[?in(@, $.big)]", "$.ints[?nin(@, $.big)]", "$[?subset_of($.ints, $.big)]", "$.sets[?any_of($.big, @)]"] {
            queries.push(q.to_string());
        }
    }
    if f % 13 == 5 {
        for q in ["$..k", "$..[0]", "$..*", "$[?count(@..k) >= 1]", "$..[?@..k]", "$..a"] {
            queries.push(q.to_string());
        }
    }
    for (di, d) in docs.iter().enumerate() {
        // over the deeply nested document every further `..` multiplies the node list by the depth (one
        // family took 78 s): there, generated queries with more than one descendant segment are left out
        let deep_doc = f % 13 == 5 && di + 1 == docs.len();
        let queries: Vec<String> = if deep_doc { queries.iter().filter(|q| q.matches("..").count() <= 1).cloned().collect() } else { queries.clone() };
        let sd = SimDoc::from_value(d);
        let mut locs = HashMap::new();
        sim_locs(&sd, &mut vec![], &mut locs);
        let shuf_seed = derive(seed, "c15shuffle", f);
        let shuf: SimDoc = SimDoc::from_value_shuffled(d, shuf_seed);
        let mut shlocs = HashMap::new();
        sim_locs(&shuf, &mut vec![], &mut shlocs);
        let pd: SimDoc = SimDoc::from_value_posint(d);
        let mut plocs = HashMap::new();
        sim_locs(&pd, &mut vec![], &mut plocs);
        let fd = FatDoc::from_value(d);
        let mut flocs = HashMap::new();
        sim_locs(&fd, &mut vec![], &mut flocs);
        for q in &queries {
            let want = eval_value(d, q);
            if want.is_err() {
                out.errs += 1;
            }
            // the member-order-shuffled stub (multiset comparison), under the two extreme personalities
            if f % 3 == 1 {
                for pers in [0u8, 7] {
                    let got = eval_sim(&shuf, &shlocs, Personality(pers), q);
                    out.evals += 1;
                    out.shuffled_evals += 1;
                    if let Some(diff) = compare_shuffled(q, &want, &got.canon) {
                        out.n_viol += 1;
                        *out.classes.entry(diff.class.clone()).or_insert(0) += 1;
                        if out.first.is_none() {
                            out.first = Some((f, Case { personality: pers, doc: d.clone(), query: q.clone(), fat: false, shared: false, shuffled: Some(shuf_seed), posint: false, mode: 0 }, diff));
                        }
                    }
                }
            }
            // the sharing stub, under the two extreme personalities
            if f % 2 == 1 {
                let shd = ShareDoc::from_value(d);
                for pers in [0u8, 7] {
                    let got = eval_shared(&shd, Personality(pers), q);
                    out.evals += 1;
                    out.shared_evals += 1;
                    if let Some(diff) = compare(&want, &got) {
                        out.n_viol += 1;
                        *out.classes.entry(diff.class.clone()).or_insert(0) += 1;
                        if out.first.is_none() {
                            out.first = Some((f, Case { personality: pers, doc: d.clone(), query: q.clone(), fat: false, shared: true, shuffled: None, posint: false, mode: 0 }, diff));
                        }
                    }
                }
            }
            // a store whose every enumeration of an object starts at another member (multiset comparison),
            // and one whose lists also answer as_object
            for (m, pers) in [(simdoc::MODE_ROTATE, 0u8), (simdoc::MODE_LISTMAP, 0u8), (simdoc::MODE_LISTMAP, 7u8), (simdoc::MODE_OWN_EXT, 0u8)] {
                if m == simdoc::MODE_OWN_EXT && !["in(", "nin(", "none_of(", "any_of(", "subset_of("].iter().any(|n| q.contains(n)) {
                    continue;
                }
                simdoc::set_mode(m);
                let got = eval_sim(&sd, &locs, Personality(pers), q);
                simdoc::set_mode(0);
                out.evals += 1;
                out.mode_evals += 1;
                let diff = if m == simdoc::MODE_ROTATE { compare_shuffled(q, &want, &got.canon) } else { compare(&want, &got.canon) };
                if let Some(diff) = diff {
                    out.n_viol += 1;
                    *out.classes.entry(diff.class.clone()).or_insert(0) += 1;
                    if out.first.is_none() {
                        out.first = Some((f, Case { personality: pers, doc: d.clone(), query: q.clone(), fat: false, shared: false, shuffled: None, posint: false, mode: m }, diff));
                    }
                }
            }
            // the two-integer-forms stub, under the two extreme personalities
            for pers in [0u8, 7] {
                let got = eval_sim(&pd, &plocs, Personality(pers), q);
                out.evals += 1;
                out.posint_evals += 1;
                if let Some(diff) = compare(&want, &got.canon) {
                    out.n_viol += 1;
                    *out.classes.entry(diff.class.clone()).or_insert(0) += 1;
                    if out.first.is_none() {
                        out.first = Some((f, Case { personality: pers, doc: d.clone(), query: q.clone(), fat: false, shared: false, shuffled: None, posint: true, mode: 0 }, diff));
                    }
                }
            }
            // a type that keeps the provided extension_custom: only where none of Value's own five
            // functions is called (those are Value's extras, not the trait's)
            if !["in(", "nin(", "none_of(", "any_of(", "subset_of("].iter().any(|n| q.contains(n)) {
                let pers = 64u8;
                let got = eval_sim(&sd, &locs, Personality(pers), q);
                out.evals += 1;
                out.by_pers[64] += 1;
                if let Some(diff) = compare(&want, &got.canon) {
                    out.n_viol += 1;
                    *out.classes.entry(diff.class.clone()).or_insert(0) += 1;
                    if out.first.is_none() {
                        out.first = Some((f, Case { personality: pers, doc: d.clone(), query: q.clone(), fat: false, shared: false, shuffled: None, posint: false, mode: 0 }, diff));
                    }
                }
            }
            // the large node type, under the two extreme personalities
            for pers in [0u8, 7] {
                let got = eval_sim(&fd, &flocs, Personality(pers), q);
                out.evals += 1;
                out.fat_evals += 1;
                if let Some(diff) = compare(&want, &got.canon) {
                    out.n_viol += 1;
                    *out.classes.entry(diff.class.clone()).or_insert(0) += 1;
                    if out.first.is_none() {
                        out.first = Some((f, Case { personality: pers, doc: d.clone(), query: q.clone(), fat: true, shared: false, shuffled: None, posint: false, mode: 0 }, diff));
                    }
                }
            }
            for pers in [0u8, 1, 2, 3, 4, 5, 6, 7, 8, 15, 16, 32, 63] {
                let got = eval_sim(&sd, &locs, Personality(pers), q);
                out.evals += 1;
                out.by_pers[(pers as usize).min(255)] += 1;
                for i in 0..simdoc::N_ACC {
                    out.counts[i] += got.counts[i];
                }
                if let Ok(v) = &got.canon {
                    if !v.is_empty() {
                        out.nonempty += 1;
                        out.shapes.insert((pers, got.trace));
                    }
                }
                if let Some(diff) = compare(&want, &got.canon) {
                    out.n_viol += 1;
                    *out.classes.entry(diff.class.clone()).or_insert(0) += 1;
                    if out.first.is_none() {
                        out.first = Some((f, Case { personality: pers, doc: d.clone(), query: q.clone(), fat: false, shared: false, shuffled: None, posint: false, mode: 0 }, diff));
                    }
                } else if out.sample.is_none() && pers == 7 {
                    if let Ok(v) = &got.canon {
                        if v.len() >= 2 && q.contains('?') {
                            out.sample = Some(json!({"family": f, "personality": pers, "document": d, "query": q, "result_paths": v.iter().map(|x| x.1.clone()).collect::<Vec<_>>(), "accessor_calls": got.counts.iter().sum::<u64>()}));
                        }
                    }
                }
            }
        }
    }
    simdoc::set_personality(Personality(0));
    out
}

pub fn drive(tier_name: &str, seed: u64, workers: usize) -> i32 {
    let t0 = std::time::Instant::now();
    c12::install_panic_hook();
    std::env::set_var("VERIF_QUIET_PANICS", "1");
    let t = tier(tier_name);
    let families: u64 = std::env::var("VERIF_C15_FAMILIES").ok().and_then(|s| s.parse().ok()).unwrap_or(t.families);
    let threaded_runs: u64 = std::env::var("VERIF_C15_RUNS").ok().and_then(|s| s.parse().ok()).unwrap_or(t.threaded_runs);
    println!("C15 tier={} VERIF_SEED={} families={} queries/family={} threaded_runs={} workers={}", t.name, seed, families, t.q_per_fam, threaded_runs, workers);

    // class 1: single-threaded, every personality x every (document, query) of every family
    let next = std::sync::atomic::AtomicU64::new(0);
    let outs: std::sync::Mutex<Vec<(u64, FamOut)>> = std::sync::Mutex::new(vec![]);
    std::thread::scope(|s| {
        for _ in 0..workers {
            s.spawn(|| loop {
                let f = next.fetch_add(1, std::sync::atomic::Ordering::Relaxed);
                if f >= families {
                    break;
                }
                let t_f = std::time::Instant::now();
                let o = run_family(seed, f, t.q_per_fam);
                if std::env::var("VERIF_C15_PROFILE").is_ok() && t_f.elapsed().as_millis() > 1500 {
                    eprintln!("slow family {}: {} ms, {} evaluations", f, t_f.elapsed().as_millis(), o.evals);
                }
                outs.lock().unwrap().push((f, o));
            });
        }
    });
    let mut outs = outs.into_inner().unwrap();
    outs.sort_by_key(|(f, _)| *f);
    let mut evals = 0u64;
    let mut fat_evals = 0u64;
    let mut posint_evals = 0u64;
    let mut mode_evals = 0u64;
    let mut shared_evals = 0u64;
    let mut shuffled_evals = 0u64;
    let mut nonempty = 0u64;
    let mut shapes: BTreeSet<(u8, u64)> = BTreeSet::new();
    let mut counts = [0u64; simdoc::N_ACC];
    let mut by_pers = [0u64; 256];
    let mut errs = 0u64;
    let mut n_viol = 0u64;
    let mut first: Option<(u64, Case, Diff)> = None;
    let mut samples = vec![];
    let mut classes: BTreeMap<String, u64> = BTreeMap::new();
    for (_, o) in outs {
        evals += o.evals;
        fat_evals += o.fat_evals;
        posint_evals += o.posint_evals;
        mode_evals += o.mode_evals;
        shared_evals += o.shared_evals;
        shuffled_evals += o.shuffled_evals;
        nonempty += o.nonempty;
        shapes.extend(o.shapes);
        for i in 0..simdoc::N_ACC {
            counts[i] += o.counts[i];
        }
        for i in 0..256 {
            by_pers[i] += o.by_pers[i];
        }
        errs += o.errs;
        n_viol += o.n_viol;
        for (k, v) in o.classes {
            *classes.entry(k).or_insert(0) += v;
        }
        if first.is_none() {
            first = o.first;
        }
        if samples.len() < 2 {
            if let Some(s) = o.sample {
                samples.push(s);
            }
        }
    }

    // class 2: the same comparison under the scheduler — C12's run processes with the stubbed store,
    // judged against the cold results of the *Value* representation
    let mut threaded_done = 0u64;
    let mut threaded_steps = 0u64;
    let mut threaded_switches = 0u64;
    let mut threaded_faults = 0u64;
    let mut threaded_ops = 0u64;
    let mut threaded_first: Option<(u64, c12::Plan, c12::Mismatch)> = None;
    let mut threaded_viol = 0u64;
    let mut harness_errors: Vec<String> = vec![];
    let mut table: c12::ColdTable = HashMap::new();
    if first.is_none() && threaded_runs > 0 {
        let corpus = c12::gen_corpus_with(derive(seed, "c15corpus", 0), 24, 10, false);
        let mut done = 0u64;
        while done < threaded_runs && threaded_first.is_none() && harness_errors.is_empty() {
            let n = 1000u64.min(threaded_runs - done);
            let plans: Vec<(u64, c12::Plan)> = (done..done + n)
                .map(|i| {
                    let (mut p, _) = c12::gen_plan_opt(&corpus, derive(seed, "c15run", i), false);
                    if p.repr == 0 {
                        p.repr = 1 + (i % 8) as u8;
                    }
                    // here every document is the stubbed store (the Value side is the cold oracle)
                    p.value_slots.clear();
                    // reference() is not part of the view: the stub does not override it
                    for ops in p.clients.iter_mut() {
                        for op in ops.iter_mut() {
                            if let c12::Op::Ref { q, d } | c12::Op::RefMut { q, d } = op {
                                *op = c12::Op::W { q: *q, d: *d };
                            }
                        }
                    }
                    (i, p)
                })
                .collect();
            let mut need: BTreeSet<(String, String)> = BTreeSet::new();
            for (_, p) in &plans {
                for (ct, q) in c12::plan_keys(p) {
                    let k = (p.contents[ct].clone(), p.queries[q].clone());
                    if !table.contains_key(&(0, k.0.clone(), k.1.clone())) {
                        need.insert(k);
                    }
                }
            }
            let reqs: Vec<c12::ColdReq> = need.into_iter().map(|(c, q)| c12::ColdReq { repr: 0, content: c, query: q }).collect();
            let colds = c12::par_map(&reqs, workers, |r| c12::run_cold(r));
            for (req, res) in reqs.iter().zip(colds) {
                match res {
                    Ok(c) => {
                        table.insert((0, req.content.clone(), req.query.clone()), c);
                    }
                    Err(e) => harness_errors.push(format!("cold: {}", e)),
                }
            }
            if !harness_errors.is_empty() {
                break;
            }
            let results = c12::par_map(&plans, workers, |(_, p)| c12::run_plan(p, false));
            for ((i, p), r) in plans.iter().zip(results) {
                match r {
                    Err(e) => harness_errors.push(format!("run {}: {}", i, e)),
                    Ok(r) => {
                        threaded_done += 1;
                        threaded_steps += r.sched.steps;
                        threaded_switches += r.sched.switches;
                        threaded_faults += r.sched.faults_fired.len() as u64;
                        threaded_ops += r.ops.len() as u64;
                        // judge against the Value table: same plan, representation field set to 0 for the lookup
                        let mut as_value = p.clone();
                        as_value.repr = 0;
                        let ms = c12::judge(&as_value, &r, &table);
                        if !ms.is_empty() {
                            threaded_viol += 1;
                            if threaded_first.is_none() {
                                threaded_first = Some((*i, p.clone(), ms[0].clone()));
                            }
                        }
                    }
                }
            }
            done += n;
        }
    }

    let mut exit = 0;
    let mut replay_path = None;
    if !classes.is_empty() {
        println!("differences by class: {}", serde_json::to_string(&classes).unwrap());
    }
    if let Some((f, case, diff)) = &first {
        let min = shrink_doc(case, &diff.class);
        let d2 = check_case(&min).unwrap_or(diff.clone());
        let body = json!({"property": "C15", "kind": "c15-case", "class": d2.class, "detail": d2.detail, "case": min, "original_document": case.doc,
            "personality_bits": "bit0: as_f64 is None for integers; bit1: Default::default() is a sentinel string; bit2: Debug is opaque; bit3: From<f64> of an integral value builds the integer form; bit4: get() with a bare all-digit key indexes arrays; bit5: From<Vec<Self>> builds a sentinel string; bit6: extension_custom is the trait's provided body (only on queries that call none of Value's five functions)",
            "how_to_replay": "./check C15 --replay <this file>"});
        let p = report::write_replay("C15", &format!("seed{}-fam{}", seed, f), &body);
        println!("violation class={} personality={}{} query={} document={} — {}", d2.class, min.personality, if min.fat { " (large node type)" } else if min.shared { " (sharing stub)" } else if min.shuffled.is_some() { " (member order shuffled; multiset comparison)" } else { "" }, min.query, min.doc.to_string().chars().take(600).collect::<String>(), d2.detail);
        report::print_violation("C15", &p);
        replay_path = Some(p);
        exit = 1;
    } else if let Some((i, plan, m)) = &threaded_first {
        // minimise with C12's machinery against the Value table
        let mut as_value_table: c12::ColdTable = HashMap::new();
        for ((_, c, q), v) in &table {
            as_value_table.insert((plan.repr, c.clone(), q.clone()), v.clone());
        }
        let min = c12::minimise(plan, &mut as_value_table, &m.class, &m.kind, 300);
        let (rfull, mm) = match c12::run_plan(&min, true) {
            Ok(r) => {
                let ms = c12::judge(&min, &r, &as_value_table);
                let mm = ms.into_iter().next().unwrap_or(m.clone());
                (Some(r), mm)
            }
            Err(_) => (None, m.clone()),
        };
        let mut pl = min.clone();
        if let Some(r) = &rfull {
            pl.schedule = Some(r.schedule.clone());
        }
        let body = json!({"property": "C15", "kind": "c15-run", "class": mm.class, "violation": mm, "plan": pl,
            "how_to_replay": "./check C15 --replay <this file>  (runs the plan over the stubbed store in a fresh process and compares every operation with the cold result over serde_json::Value)"});
        let p = report::write_replay("C15", &format!("seed{}-run{}", seed, i), &body);
        println!("violation class={} (scheduled run {}) op {} of client {} ({}) query={} expected(Value)={} observed(SimDoc p{})={}", mm.class, i, mm.j, mm.c, mm.kind, mm.query, mm.expected.clone().unwrap_or_default().chars().take(200).collect::<String>(), plan.repr - 1, mm.observed.clone().unwrap_or_default().chars().take(200).collect::<String>());
        report::print_violation("C15", &p);
        replay_path = Some(p);
        exit = 1;
    }
    if exit == 0 && !harness_errors.is_empty() {
        for e in harness_errors.iter().take(5) {
            eprintln!("harness error: {}", e);
        }
        exit = 2;
    }
    let wall = t0.elapsed().as_secs_f64();
    let acc: BTreeMap<&str, u64> = simdoc::ACC_NAMES.iter().zip(counts.iter()).map(|(n, c)| (*n, *c)).collect();
    let cov = json!({
        "evaluations": evals + threaded_ops,
        "distinct_nontrivial": shapes.len(),
        "rule": "one evaluation = one query evaluated by the real engine over the stubbed store under one personality (configuration) and compared with the same query over the equivalent serde_json::Value (paths, values, Ok/Err, and that every returned reference points into the store that was passed in); non-trivial = the result is a non-empty node list; distinct = distinct (personality, FNV hash of the accessor-call sequence) pair",
        "samples": samples,
        "single_threaded_evaluations": evals,
        "evaluations_over_the_large_node_type": fat_evals,
        "evaluations_over_the_two_integer_forms_stub": posint_evals,
        "evaluations_over_the_rotating_and_list_as_table_stubs": mode_evals,
        "evaluations_over_the_sharing_stub": shared_evals,
        "evaluations_over_the_member_order_shuffled_stub": shuffled_evals,
        "node_sizes_in_bytes": {"serde_json::Value": std::mem::size_of::<Value>(), "SimDoc": std::mem::size_of::<SimDoc>(), "FatDoc": std::mem::size_of::<FatDoc>()},
        "evaluations_with_non_empty_result": nonempty,
        "value_side_errors": errs,
        "evaluations_by_personality": by_pers.iter().enumerate().filter(|(_, n)| **n > 0).map(|(i, n)| (format!("p{}", i), *n)).collect::<BTreeMap<_, _>>(),
        "personality_bits": "bit0: as_f64 is None for integers; bit1: Default::default() is a sentinel string; bit2: Debug is opaque; bit3: From<f64> of an integral value builds the integer form; bit4: get() with a bare all-digit key indexes arrays; bit5: From<Vec<Self>> builds a sentinel string; bit6: extension_custom is the trait's provided body (only on queries that call none of Value's five functions)",
        "accessor_calls": acc,
        "scheduled_class": {"runs": threaded_done, "operations": threaded_ops, "scheduler_steps": threaded_steps, "context_switches": threaded_switches, "client_aborts_fired": threaded_faults, "cold_value_keys": table.len()},
        "differences_by_class": classes,
        "runs_per_hour": (evals as f64 / wall.max(0.001) * 3600.0) as u64,
        "simulated_time": format!("{} scheduler steps in the scheduled class; the system under test reads no clock", threaded_steps),
        "faults_injected": {"client_abort": threaded_faults},
        "real_components": ["jsonpath-rust parser and evaluator (generic code instantiated at SimDoc and at serde_json::Value)", "regex", "pest", "Value's extension_custom (the stub delegates to it)"],
        "stubbed_components": ["the document store: SimDoc, a second Queryable implementation with 8 personalities, and FatDoc, the same view in a node type of about half a kilobyte; ShareDoc, a third implementation with hash-consed subtrees, flyweight null/true/false members and string values that are slices of shared buffers", "OS scheduling in the scheduled class"],
        "replay": replay_path.as_ref().map(|p: &std::path::PathBuf| p.display().to_string()),
    });
    report::write_evidence(&report::Evidence {
        property: "C15".into(),
        tier: t.name.into(),
        seed,
        wall_s: wall,
        violations: (n_viol + threaded_viol) as usize,
        coverage: cov,
        assumptions: vec![
            "faithful = same PartialEq relation as Value, same member and array order, get strips one enclosing pair of quotes; member names and selectors avoid ' \" and \\ (Value's own quote trimming is ambiguous there) and integers fit i64".into(),
            "the personalities cover three freedoms the trait leaves open (as_f64 on integers, Default, Debug), not all implementations".into(),
            "differential: defects that Value and the stub share cancel out".into(),
        ],
    });
    println!("C15 done: evaluations={} non_empty={} distinct_shapes={} scheduled_runs={} violations={} wall={:.1}s", evals, nonempty, shapes.len(), threaded_done, n_viol + threaded_viol, wall);
    exit
}

pub fn replay(body: &Value) -> i32 {
    c12::install_panic_hook();
    std::env::set_var("VERIF_QUIET_PANICS", "1");
    let path = std::env::var("VERIF_REPLAY_PATH").unwrap_or_default();
    match body["kind"].as_str() {
        Some("c15-case") => {
            let case: Case = match serde_json::from_value(body["case"].clone()) {
                Ok(c) => c,
                Err(e) => {
                    eprintln!("harness error: bad replay file: {}", e);
                    return 2;
                }
            };
            match check_case(&case) {
                Some(d) => {
                    println!("replayed: class={} personality={} query={} document={} — {}", d.class, case.personality, case.query, case.doc, d.detail);
                    println!("VIOLATION property=C15 replay={}", path);
                    1
                }
                None => {
                    println!("replay: Value and the stubbed store agree on this case on this tree");
                    0
                }
            }
        }
        Some("c15-run") => {
            let plan: c12::Plan = match serde_json::from_value(body["plan"].clone()) {
                Ok(c) => c,
                Err(e) => {
                    eprintln!("harness error: bad replay file: {}", e);
                    return 2;
                }
            };
            let mut table: c12::ColdTable = HashMap::new();
            for (ct, q) in c12::plan_keys(&plan) {
                let req = c12::ColdReq { repr: 0, content: plan.contents[ct].clone(), query: plan.queries[q].clone() };
                match c12::run_cold(&req) {
                    Ok(c) => {
                        table.insert((plan.repr, req.content, req.query), c);
                    }
                    Err(e) => {
                        eprintln!("harness error: {}", e);
                        return 2;
                    }
                }
            }
            match c12::run_plan(&plan, true) {
                Ok(r) => {
                    let ms = c12::judge(&plan, &r, &table);
                    if let Some(m) = ms.first() {
                        println!("replayed: class={} op {} of client {} ({}) query={} expected(Value)={} observed={}", m.class, m.j, m.c, m.kind, m.query, m.expected.clone().unwrap_or_default(), m.observed.clone().unwrap_or_default());
                        println!("VIOLATION property=C15 replay={}", path);
                        1
                    } else {
                        println!("replay: every operation over the stubbed store equals the cold result over Value");
                        0
                    }
                }
                Err(e) => {
                    eprintln!("harness error: {}", e);
                    2
                }
            }
        }
        _ => {
            eprintln!("harness error: unknown C15 replay kind");
            2
        }
    }
}

