//! C09 — reference / reference_mut resolve a Normalized Path to exactly its node.
//! Seeded histories of reads and writes through path handles that go stale, checked operation by
//! operation against a reference model addressed by locations (never by library path handling).
use crate::gen::{self, quote_double, quote_single, shorthand_ok, DocParams};
use crate::npath::{self, Loc, Step};
use crate::report::{self, Finding};
use crate::rng::{derive, fnv, fnv_add, Rng};
use jsonpath_rust::query::queryable::Queryable;
use jsonpath_rust::JsonPath;
use serde::{Deserialize, Serialize};
use serde_json::{json, Map, Value};
use std::collections::{BTreeMap, BTreeSet};

#[derive(Clone, Debug, Serialize, Deserialize, PartialEq)]
pub enum Op {
    /// `doc.reference(path)`
    Read { c: u8, path: String },
    /// `doc.reference_mut(path)` and, if a handle comes back, `*handle = value`
    Write { c: u8, path: String, value: Value },
    /// `doc.query_with_path(q)`; every reported path is fed back to `reference`
    Capture { c: u8, q: String },
    /// the README idiom: query once, then write through every returned path in order
    UpdateAll { c: u8, q: String, values: Vec<Value> },
    /// `doc.reference_mut(path)` and, through the handle, the container grows: an array gets `value`
    /// pushed, an object gets a new member holding it, anything else is replaced by it
    Grow { c: u8, path: String, value: Value },
    /// `doc.reference_mut(path)` and, through the handle, the container shrinks: `how` 0 — an array
    /// loses its last element, an object its first member; 1 — it is cleared; 2 — an array is cut to
    /// half; a scalar is taken (left null)
    Shrink { c: u8, path: String, how: u8 },
}

#[derive(Clone, Debug, Serialize, Deserialize)]
pub struct History {
    pub seed: u64,
    pub doc: Value,
    pub ops: Vec<Op>,
    /// every simulated client is an OS thread of its own (one of three that live as long as the
    /// process); an operation runs on its client's thread while everybody else waits — hand-overs, no
    /// concurrency. Whatever the system under test keeps per thread and per process now differ.
    #[serde(default)]
    pub threads: bool,
    /// executed by the build with debug assertions on
    #[serde(default)]
    pub dbg: bool,
}

// ---------------------------------------------------------------------------------------------
// client threads: three workers per process; `on_client_thread` runs a closure on one of them and
// waits for it (the caller's borrow is live for exactly that long)

type Job = Box<dyn FnOnce() + Send + 'static>;
struct ClientThread {
    jobs: std::sync::mpsc::Sender<Job>,
    done: std::sync::mpsc::Receiver<()>,
}
static CLIENT_THREADS: std::sync::OnceLock<Vec<std::sync::Mutex<ClientThread>>> = std::sync::OnceLock::new();

fn client_threads() -> &'static Vec<std::sync::Mutex<ClientThread>> {
    CLIENT_THREADS.get_or_init(|| {
        (0..3)
            .map(|k| {
                let (tx, rx) = std::sync::mpsc::channel::<Job>();
                let (dtx, drx) = std::sync::mpsc::channel::<()>();
                std::thread::Builder::new()
                    .name(format!("client-{}", k))
                    .stack_size(16 << 20)
                    .spawn(move || {
                        while let Ok(job) = rx.recv() {
                            job();
                            let _ = dtx.send(());
                        }
                    })
                    .expect("harness: spawn client thread");
                std::sync::Mutex::new(ClientThread { jobs: tx, done: drx })
            })
            .collect()
    })
}

pub fn on_client_thread<R: Send, F: FnOnce() -> R + Send>(k: usize, f: F) -> R {
    let mut out: Option<std::thread::Result<R>> = None;
    {
        let out_ref = &mut out;
        let job: Box<dyn FnOnce() + Send + '_> = Box::new(move || {
            *out_ref = Some(std::panic::catch_unwind(std::panic::AssertUnwindSafe(f)));
        });
        // the job borrows from this frame; this frame does not return before the job has run
        let job: Job = unsafe { std::mem::transmute(job) };
        let t = client_threads()[k % 3].lock().unwrap();
        t.jobs.send(job).expect("harness: client thread gone");
        t.done.recv().expect("harness: client thread died");
    }
    match out.expect("harness: job ran") {
        Ok(r) => r,
        Err(p) => std::panic::resume_unwind(p),
    }
}

struct SendPtr<T>(*mut T);
unsafe impl<T> Send for SendPtr<T> {}

#[derive(Clone, Debug, Serialize, Deserialize)]
pub struct Viol {
    pub op_index: usize,
    /// read-wrong-node | read-missing | read-phantom | write-wrong-node | write-missing |
    /// write-phantom | frame | echo-unresolved | echo-wrong
    pub class: String,
    pub path: String,
    pub q: Option<String>,
    pub detail: String,
    /// echo classes: the Normalized Path of the node the path was reported for
    #[serde(default)]
    pub want_path: Option<String>,
}

#[derive(Default, Clone, Debug, Serialize, Deserialize)]
pub struct Stats {
    pub ops: BTreeMap<String, u64>,
    pub hits: u64,
    pub misses: u64,
    pub writes_applied: u64,
    pub not_judged: u64,
    pub query_errors: u64,
    pub echoed_paths: u64,
    pub echoed_normalized: u64,
    pub stale_uses: u64,
    #[serde(default)]
    pub ops_on_client_threads: u64,
    #[serde(default)]
    pub captures_through_query_only_path: u64,
    pub name_classes: BTreeMap<String, u64>,
    pub miss_kinds: BTreeMap<String, u64>,
    pub kf_hits: BTreeMap<String, u64>,
    pub shape: u64,
}

impl Stats {
    fn bump(&mut self, k: &'static str) {
        *self.ops.entry(k.to_string()).or_insert(0) += 1;
    }
    pub fn merge(&mut self, o: &Stats) {
        for (k, v) in &o.ops {
            *self.ops.entry(k.clone()).or_insert(0) += v;
        }
        for (k, v) in &o.name_classes {
            *self.name_classes.entry(k.clone()).or_insert(0) += v;
        }
        for (k, v) in &o.miss_kinds {
            *self.miss_kinds.entry(k.clone()).or_insert(0) += v;
        }
        for (k, v) in &o.kf_hits {
            *self.kf_hits.entry(k.clone()).or_insert(0) += v;
        }
        self.hits += o.hits;
        self.misses += o.misses;
        self.writes_applied += o.writes_applied;
        self.not_judged += o.not_judged;
        self.query_errors += o.query_errors;
        self.echoed_paths += o.echoed_paths;
        self.echoed_normalized += o.echoed_normalized;
        self.stale_uses += o.stale_uses;
        self.ops_on_client_threads += o.ops_on_client_threads;
        self.captures_through_query_only_path += o.captures_through_query_only_path;
    }
}

fn name_classes(loc: &[Step], st: &mut Stats) {
    for s in loc {
        if let Step::Name(n) = s {
            let mut add = |k: &'static str| *st.name_classes.entry(k.to_string()).or_insert(0) += 1;
            if n.contains('/') {
                add("slash");
            }
            if n.contains('~') {
                add("tilde");
            }
            if n.contains('\'') {
                add("single_quote");
            }
            if n.contains('"') {
                add("double_quote");
            }
            if n.contains('\\') {
                add("backslash");
            }
            if n.chars().any(|c| (c as u32) < 0x20) {
                add("control");
            }
            if n.chars().any(|c| matches!(c as u32, 0xb | 0xe | 0xf | 0x1a..=0x1f)) {
                add("control_hex_letter");
            }
            if !n.is_empty() && n.chars().all(|c| c.is_ascii_digit()) {
                add("index_like");
            }
            if n.is_empty() {
                add("empty");
            }
            if n.chars().any(|c| (c as u32) > 0x7f) {
                add("non_ascii");
            }
        }
    }
}

/// Features of a query string that the known-finding predicates refer to.
#[derive(Default, Debug, Clone, Copy)]
pub struct QFeatures {
    pub double_quoted: bool,
    pub escape_other: bool,
}

pub fn query_features(q: &str) -> QFeatures {
    let mut f = QFeatures::default();
    let cs: Vec<char> = q.chars().collect();
    let mut i = 0;
    while i < cs.len() {
        let c = cs[i];
        if c == '\'' || c == '"' {
            if c == '"' {
                f.double_quoted = true;
            }
            i += 1;
            while i < cs.len() && cs[i] != c {
                if cs[i] == '\\' {
                    if i + 1 < cs.len() && !(cs[i + 1] == '\\' || cs[i + 1] == '/') {
                        f.escape_other = true;
                    }
                    i += 1;
                }
                i += 1;
            }
        }
        i += 1;
    }
    f
}

/// The string literals of a query text: (quote character, raw inner text).
pub fn string_literals(q: &str) -> Vec<(char, String)> {
    let cs: Vec<char> = q.chars().collect();
    let mut out = vec![];
    let mut i = 0;
    while i < cs.len() {
        let c = cs[i];
        if c == '\'' || c == '"' {
            let mut raw = String::new();
            i += 1;
            while i < cs.len() && cs[i] != c {
                if cs[i] == '\\' && i + 1 < cs.len() {
                    raw.push(cs[i]);
                    i += 1;
                }
                raw.push(cs[i]);
                i += 1;
            }
            out.push((c, raw));
        }
        i += 1;
    }
    out
}

fn has_escape_other(raw: &str) -> bool {
    let cs: Vec<char> = raw.chars().collect();
    let mut i = 0;
    while i < cs.len() {
        if cs[i] == '\\' {
            if i + 1 < cs.len() && !(cs[i + 1] == '\\' || cs[i + 1] == '/') {
                return true;
            }
            i += 1;
        }
        i += 1;
    }
    false
}

/// What a quoted selector's inner text denotes (RFC 9535 escapes).
fn rfc_unescape(raw: &str) -> Option<String> {
    let cs: Vec<char> = raw.chars().collect();
    let mut out = String::new();
    let mut i = 0;
    while i < cs.len() {
        if cs[i] != '\\' {
            out.push(cs[i]);
            i += 1;
            continue;
        }
        i += 1;
        let e = *cs.get(i)?;
        i += 1;
        match e {
            'b' => out.push('\u{8}'),
            'f' => out.push('\u{c}'),
            'n' => out.push('\n'),
            'r' => out.push('\r'),
            't' => out.push('\t'),
            '/' | '\\' | '\'' | '"' => out.push(e),
            'u' => {
                let h: String = cs.get(i..i + 4)?.iter().collect();
                i += 4;
                let mut code = u32::from_str_radix(&h, 16).ok()?;
                if (0xD800..0xDC00).contains(&code) {
                    if cs.get(i) != Some(&'\\') || cs.get(i + 1) != Some(&'u') {
                        return None;
                    }
                    let l: String = cs.get(i + 2..i + 6)?.iter().collect();
                    i += 6;
                    let lo = u32::from_str_radix(&l, 16).ok()?;
                    code = 0x10000 + ((code - 0xD800) << 10) + (lo.checked_sub(0xDC00)?);
                }
                out.push(char::from_u32(code)?);
            }
            _ => return None,
        }
    }
    Some(out)
}

/// The part of a reported path from the first step at which it departs from the node's location
/// in a way that matters (None if it does not depart). A step that is the echo of one of the
/// query's own single-quoted selectors and denotes the same member name (`['a\/b']` for `a/b`) is a
/// different spelling of the same step, not a departure.
fn departing_tail<'p>(reported: &'p str, want: &str, lits: &[(char, String)]) -> Option<&'p str> {
    let loc = npath::parse(want)?;
    let mut pos = 1;
    if !reported.starts_with('$') {
        return Some(reported);
    }
    'steps: for st in &loc {
        let t = &npath::render(std::slice::from_ref(st))[1..];
        if reported[pos..].starts_with(t) {
            pos += t.len();
            continue;
        }
        if let Step::Name(name) = st {
            for (qc, raw) in lits {
                if *qc == '\'' {
                    let echo = format!("['{}']", raw);
                    if reported[pos..].starts_with(&echo) && rfc_unescape(raw).as_deref() == Some(name.as_str()) {
                        pos += echo.len();
                        continue 'steps;
                    }
                }
            }
        }
        return Some(&reported[pos..]);
    }
    if pos == reported.len() {
        None
    } else {
        Some(&reported[pos..])
    }
}

/// A listed open finding matches only an echo violation whose reported path departs from the node's
/// Normalized Path exactly at a step that is the echo of one of the query's own name selectors of the
/// listed kind. Anything else about the same property is still a violation.
pub fn kf_match<'a>(v: &Viol, findings: &'a [Finding]) -> Option<&'a Finding> {
    if !v.class.starts_with("echo-") {
        return None;
    }
    let (Some(q), Some(want)) = (&v.q, &v.want_path) else { return None };
    let lits = string_literals(q);
    let tail = departing_tail(&v.path, want, &lits)?;
    for f in findings {
        if f.status != "open" {
            continue;
        }
        let cl = f.predicate.get("classifier").and_then(|x| x.as_str()).unwrap_or("");
        if cl != "c09.echo" {
            continue;
        }
        let ok = match f.predicate.get("departs_at_echo_of").and_then(|x| x.as_str()) {
            Some("double_quoted_name_selector") => lits.iter().any(|(qc, raw)| *qc == '"' && tail.starts_with(&format!("['\"{}\"']", raw))),
            Some("single_quoted_name_selector_with_escape_other_than_bs_slash") => lits.iter().any(|(qc, raw)| *qc == '\'' && has_escape_other(raw) && tail.starts_with(&format!("['{}']", raw))),
            _ => false,
        };
        if ok {
            return Some(f);
        }
    }
    None
}

/// class plus the features of the path or query involved (for the summary only)
pub fn viol_label(v: &Viol) -> String {
    let mut l = v.class.clone();
    if let Some(q) = &v.q {
        let f = query_features(q);
        if f.double_quoted {
            l.push_str("+q:double_quoted");
        }
        if f.escape_other {
            l.push_str("+q:escape");
        }
    }
    if npath::parse(&v.path).is_none() {
        l.push_str("+path_not_normalized");
    }
    l
}

pub struct Exec<'f> {
    pub doc: Value,
    pub model: Value,
    pub stats: Stats,
    pub findings: &'f [Finding],
    /// known-finding matches seen (key, witness)
    pub kf_seen: Vec<(String, Viol)>,
    shape: u64,
    /// operations run on their client's own OS thread
    pub threads: bool,
}

pub struct StepOut {
    pub viol: Option<Viol>,
    /// paths reported by a Capture / UpdateAll
    pub reported: Vec<String>,
}

impl<'f> Exec<'f> {
    pub fn new(doc: &Value, findings: &'f [Finding]) -> Self {
        Exec { doc: doc.clone(), model: doc.clone(), stats: Stats::default(), findings, kf_seen: vec![], shape: fnv(b"c09"), threads: false }
    }

    fn shape_add(&mut self, kind: u8, outcome: u8) {
        self.shape = fnv_add(self.shape, &[kind, outcome]);
        self.stats.shape = self.shape;
    }

    fn viol(&self, i: usize, class: &str, path: &str, q: Option<&str>, detail: String) -> Viol {
        Viol { op_index: i, class: class.into(), path: path.into(), q: q.map(|s| s.to_string()), detail, want_path: None }
    }

    /// An echo violation that matches a listed open finding is recorded and the history goes on.
    fn echo(&mut self, v: Viol) -> Option<Viol> {
        if let Some(f) = kf_match(&v, self.findings) {
            *self.stats.kf_hits.entry(f.key.clone()).or_insert(0) += 1;
            if !self.kf_seen.iter().any(|(k, _)| k == &f.key) {
                self.kf_seen.push((f.key.clone(), v));
            }
            None
        } else {
            Some(v)
        }
    }

    fn read(&mut self, i: usize, path: &str) -> Option<Viol> {
        let got = self.doc.reference(path.to_string());
        let Some(loc) = npath::parse(path) else {
            self.stats.not_judged += 1;
            self.shape_add(0, 9);
            return None;
        };
        let want = npath::walk(&self.doc, &loc);
        let r = match (want, got) {
            (Some(w), Some(g)) => {
                if std::ptr::eq(w, g) {
                    None
                } else {
                    let gl = npath::loc_of(&self.doc, g).map(|l| npath::render(&l)).unwrap_or("<outside the document>".into());
                    Some(("read-wrong-node", format!("reference returned the node at {} (value {})", gl, g)))
                }
            }
            (Some(w), None) => Some(("read-missing", format!("reference returned None; the node exists (value {})", w))),
            (None, Some(g)) => {
                let gl = npath::loc_of(&self.doc, g).map(|l| npath::render(&l)).unwrap_or("<outside the document>".into());
                Some(("read-phantom", format!("no such location; reference returned the node at {} (value {})", gl, g)))
            }
            (None, None) => None,
        };
        let hit = want.is_some();
        if hit {
            self.stats.hits += 1;
            let mut st = std::mem::take(&mut self.stats);
            name_classes(&loc, &mut st);
            self.stats = st;
        } else {
            self.stats.misses += 1;
        }
        self.shape_add(0, hit as u8);
        r.map(|(c, d)| self.viol(i, c, path, None, d))
    }

    /// `what`: 0 replace, 1 grow, 2.. shrink (2: last element / first member, 3: clear, 4: cut to half)
    fn write(&mut self, i: usize, path: &str, value: &Value, q: Option<&str>, what: u8) -> Option<Viol> {
        // what the caller does with the handle
        let apply = |node: &mut Value| match what {
            0 => *node = value.clone(),
            1 => match node {
                Value::Array(a) => a.push(value.clone()),
                Value::Object(o) => {
                    o.insert(format!("grown{}", i), value.clone());
                }
                other => *other = value.clone(),
            },
            2 => match node {
                Value::Array(a) => {
                    a.pop();
                }
                Value::Object(o) => {
                    if let Some(k) = o.keys().next().cloned() {
                        o.remove(&k);
                    }
                }
                other => {
                    other.take();
                }
            },
            3 => match node {
                Value::Array(a) => a.clear(),
                Value::Object(o) => o.clear(),
                other => {
                    other.take();
                }
            },
            _ => match node {
                Value::Array(a) => {
                    let n = a.len() / 2;
                    a.truncate(n);
                }
                Value::Object(o) => {
                    let keep: Vec<String> = o.keys().take(o.len() / 2).cloned().collect();
                    o.retain(|k, _| keep.contains(k));
                }
                other => {
                    other.take();
                }
            },
        };
        let Some(loc) = npath::parse(path) else {
            // not a Normalized Path: the statement promises nothing; do not write through it
            let _ = self.doc.reference(path.to_string());
            self.stats.not_judged += 1;
            self.shape_add(1, 9);
            return None;
        };
        let want: Option<*const Value> = npath::walk(&self.doc, &loc).map(|p| p as *const Value);
        let mut res: Option<(&'static str, String)> = None;
        {
            let got = self.doc.reference_mut(path.to_string());
            match (want, got) {
                (Some(w), Some(g)) => {
                    if (g as *const Value) != w {
                        res = Some(("write-wrong-node", "reference_mut returned a handle to a different node".into()));
                    }
                    apply(g);
                }
                (Some(_), None) => res = Some(("write-missing", "reference_mut returned None; the node exists".into())),
                (None, Some(g)) => {
                    res = Some(("write-phantom", format!("no such location; reference_mut returned a handle (to value {})", g)));
                    apply(g);
                }
                (None, None) => {}
            }
        }
        if want.is_some() {
            apply(npath::walk_mut(&mut self.model, &loc).unwrap());
            self.stats.hits += 1;
            self.stats.writes_applied += 1;
            let mut st = std::mem::take(&mut self.stats);
            name_classes(&loc, &mut st);
            self.stats = st;
        } else {
            self.stats.misses += 1;
        }
        self.shape_add(1, want.is_some() as u8);
        if res.is_none() && self.doc != self.model {
            res = Some(("frame", format!("after the write the document is {} but only {} should have changed: expected {}", self.doc, path, self.model)));
        }
        res.map(|(c, d)| self.viol(i, c, path, q, d))
    }

    /// Runs the query and checks that every reported path resolves to the node it was reported for.
    fn capture(&mut self, i: usize, q: &str) -> (Option<Viol>, Vec<(String, Option<Loc>)>) {
        let mut out = vec![];
        let mut first: Option<Viol> = None;
        // one query text in four goes through `query_only_path` (paths) and `query` (nodes), paired by
        // position, instead of `query_with_path`: "every path a query returns" covers both
        let split_route = fnv(q.as_bytes()) % 4 == 0;
        let pairs: Vec<(String, &Value)> = if split_route {
            match (self.doc.query_only_path(q), self.doc.query(q)) {
                (Ok(ps), Ok(ns)) => {
                    self.stats.captures_through_query_only_path += 1;
                    if ps.len() != ns.len() {
                        let v = self.viol(i, "echo-unresolved", q, Some(q), format!("query_only_path reports {} paths but query returns {} nodes", ps.len(), ns.len()));
                        return (Some(v), out);
                    }
                    ps.into_iter().zip(ns).collect()
                }
                _ => {
                    self.stats.query_errors += 1;
                    self.shape_add(2, 8);
                    return (None, out);
                }
            }
        } else {
            match self.doc.query_with_path(q) {
                Ok(r) => r.into_iter().map(|r| (r.clone().path(), r.val())).collect(),
                Err(_) => {
                    self.stats.query_errors += 1;
                    self.shape_add(2, 8);
                    return (None, out);
                }
            }
        };
        let mut pending = vec![];
        for (path, node) in pairs {
            let loc = npath::loc_of(&self.doc, node);
            self.stats.echoed_paths += 1;
            if let Some(l) = &loc {
                if npath::render(l) == path {
                    self.stats.echoed_normalized += 1;
                }
            }
            let back = self.doc.reference(path.clone());
            let v = match back {
                None => Some(("echo-unresolved", format!("the query reported this path for the node at {} but reference returns None", loc.as_ref().map(|l| npath::render(l)).unwrap_or("?".into())))),
                Some(b) if !std::ptr::eq(b, node) => Some(("echo-wrong", format!("the query reported this path for the node at {} but reference resolves it to the node at {}", loc.as_ref().map(|l| npath::render(l)).unwrap_or("?".into()), npath::loc_of(&self.doc, b).map(|l| npath::render(&l)).unwrap_or("?".into())))),
                _ => None,
            };
            if let Some((c, d)) = v {
                let mut vv = self.viol(i, c, &path, Some(q), d);
                vv.want_path = loc.as_ref().map(|l| npath::render(l));
                pending.push(vv);
                out.push((path, None));
            } else {
                out.push((path, loc));
            }
        }
        self.shape_add(2, out.len().min(7) as u8);
        for v in pending {
            if let Some(v) = self.echo(v) {
                if first.is_none() {
                    first = Some(v);
                }
            }
        }
        (first, out)
    }

    /// A panic inside the library is an outcome, not a crash of the harness: for a read or a write it
    /// is a violation (the statement promises a node or None); inside a query it is not C09's business.
    pub fn step(&mut self, i: usize, op: &Op) -> StepOut {
        if self.threads {
            let c = match op {
                Op::Read { c, .. } | Op::Write { c, .. } | Op::Grow { c, .. } | Op::Shrink { c, .. } | Op::Capture { c, .. } | Op::UpdateAll { c, .. } => *c as usize,
            };
            let me = SendPtr(self as *mut Exec<'f>);
            let opp = SendPtr(op as *const Op as *mut Op);
            self.stats.ops_on_client_threads += 1;
            return on_client_thread(c, move || {
                let (me, opp) = (me, opp);
                // exclusive for the duration: the caller is blocked in on_client_thread
                let ex: &mut Exec<'f> = unsafe { &mut *me.0 };
                let op: &Op = unsafe { &*opp.0 };
                ex.step_here(i, op)
            });
        }
        self.step_here(i, op)
    }

    fn step_here(&mut self, i: usize, op: &Op) -> StepOut {
        let r = std::panic::catch_unwind(std::panic::AssertUnwindSafe(|| self.step_inner(i, op)));
        match r {
            Ok(o) => o,
            Err(_) => match op {
                Op::Read { path, .. } => StepOut { viol: Some(self.viol(i, "read-panic", path, None, "reference panicked".into())), reported: vec![] },
                Op::Write { path, .. } | Op::Grow { path, .. } | Op::Shrink { path, .. } => StepOut { viol: Some(self.viol(i, "write-panic", path, None, "reference_mut (or the write through it) panicked".into())), reported: vec![] },
                Op::Capture { .. } | Op::UpdateAll { .. } => {
                    self.stats.query_errors += 1;
                    // the document may be half-written after a panic inside UpdateAll: re-align the model
                    self.model = self.doc.clone();
                    StepOut { viol: None, reported: vec![] }
                }
            },
        }
    }

    fn step_inner(&mut self, i: usize, op: &Op) -> StepOut {
        match op {
            Op::Read { path, .. } => {
                self.stats.bump("read");
                StepOut { viol: self.read(i, path), reported: vec![] }
            }
            Op::Write { path, value, .. } => {
                self.stats.bump("write");
                StepOut { viol: self.write(i, path, value, None, 0), reported: vec![] }
            }
            Op::Grow { path, value, .. } => {
                self.stats.bump("grow");
                StepOut { viol: self.write(i, path, value, None, 1), reported: vec![] }
            }
            Op::Shrink { path, how, .. } => {
                self.stats.bump("shrink");
                StepOut { viol: self.write(i, path, &Value::Null, None, 2 + *how), reported: vec![] }
            }
            Op::Capture { q, .. } => {
                self.stats.bump("capture");
                let (v, out) = self.capture(i, q);
                StepOut { viol: v, reported: out.into_iter().map(|(p, _)| p).collect() }
            }
            Op::UpdateAll { q, values, .. } => {
                self.stats.bump("update_all");
                let (v, out) = self.capture(i, q);
                let reported: Vec<String> = out.iter().map(|(p, _)| p.clone()).collect();
                if v.is_some() {
                    return StepOut { viol: v, reported };
                }
                for (k, (path, ok_loc)) in out.iter().enumerate() {
                    if ok_loc.is_none() {
                        continue; // echo already failed for this path (known finding); nothing to write through
                    }
                    let val = if values.is_empty() { Value::Null } else { values[k % values.len()].clone() };
                    if let Some(v) = self.write(i, path, &val, Some(q), 0) {
                        return StepOut { viol: Some(v), reported };
                    }
                }
                StepOut { viol: None, reported }
            }
        }
    }
}

pub struct RunOut {
    pub history: History,
    pub viol: Option<Viol>,
    pub stats: Stats,
    pub kf_seen: Vec<(String, Viol)>,
    pub nontrivial: bool,
}

/// Re-executes a literal history.
pub fn exec_history(h: &History, findings: &[Finding]) -> (Option<Viol>, Stats, Vec<(String, Viol)>) {
    let mut ex = Exec::new(&h.doc, findings);
    ex.threads = h.threads;
    for (i, op) in h.ops.iter().enumerate() {
        let out = ex.step(i, op);
        if out.viol.is_some() {
            return (out.viol, ex.stats, ex.kf_seen);
        }
    }
    (None, ex.stats, ex.kf_seen)
}

// ---------------------------------------------------------------------------------------------
// generation

struct Handle {
    path: String,
    loc: Option<Loc>,
    born: usize,
}

fn spell_steps(rng: &mut Rng, model: &Value, loc: &[Step], fancy: bool) -> String {
    let mut s = String::from("$");
    let mut cur = model;
    for st in loc {
        match st {
            Step::Name(n) => {
                let k = if fancy { rng.weighted(&[4, 4, 3]) } else { rng.weighted(&[4, 4, 0]) };
                if k == 0 && shorthand_ok(n) {
                    s.push('.');
                    s.push_str(n);
                } else if k == 2 {
                    s.push_str(&format!("[{}]", quote_double(n)));
                } else if n.contains('/') && rng.chance(1, 3) {
                    // the other legal spelling of a solidus
                    s.push_str(&format!("[{}]", quote_single(n).replace('/', "\\/")));
                } else {
                    s.push_str(&format!("[{}]", quote_single(n)));
                }
                cur = cur.get(n.as_str()).unwrap_or(&Value::Null);
            }
            Step::Idx(i) => {
                let len = cur.as_array().map(|a| a.len()).unwrap_or(0) as i64;
                if fancy && len > 0 && rng.chance(1, 5) {
                    s.push_str(&format!("[{}]", *i as i64 - len));
                } else {
                    s.push_str(&format!("[{}]", i));
                }
                cur = cur.get(*i).unwrap_or(&Value::Null);
            }
            Step::Big(d) => {
                s.push_str(&format!("[{}]", d));
                cur = &Value::Null;
            }
        }
    }
    s
}

fn gen_query(rng: &mut Rng, model: &Value, names: &[String]) -> String {
    let locs = npath::all_locs(model);
    // prefer container locations as the base of a query
    let mut base = rng.pick(&locs).clone();
    for _ in 0..3 {
        if npath::walk(model, &base).map(|v| v.is_array() || v.is_object()).unwrap_or(false) {
            break;
        }
        base = rng.pick(&locs).clone();
    }
    // one query in four starts at the container with the most children (in a document with one big
    // array nearly every location is an element of it, and a uniform draw would almost never pick it)
    if rng.chance(1, 4) {
        let width = |l: &Loc| -> usize { npath::walk(model, l).map(|v| v.as_array().map(|a| a.len()).or(v.as_object().map(|o| o.len())).unwrap_or(0)).unwrap_or(0) };
        if let Some(widest) = locs.iter().max_by_key(|l| width(l)) {
            if width(widest) > 0 {
                base = widest.clone();
            }
        }
    }
    let fancy = rng.chance(1, 2);
    let mut q = spell_steps(rng, model, &base, fancy);
    let some_name = |rng: &mut Rng| -> String {
        if names.is_empty() {
            "a".to_string()
        } else {
            rng.pick(names).clone()
        }
    };
    let name_sel = |rng: &mut Rng, n: &str| -> String {
        if fancy && rng.chance(1, 3) {
            quote_double(n)
        } else if n.contains('/') && rng.chance(1, 3) {
            quote_single(n).replace('/', "\\/")
        } else {
            quote_single(n)
        }
    };
    // filters that compare a member (or the node itself) with a literal that occurs in the document, and
    // filters joined by && / ||: how a filter attaches index and name steps to what it keeps
    let mut pairs: Vec<(String, Value)> = vec![];
    let mut scalars: Vec<Value> = vec![];
    collect_pairs(model, &mut pairs, &mut scalars);
    let lit = |v: &Value| -> String {
        match v {
            Value::String(t) => quote_single(t),
            other => other.to_string(),
        }
    };
    let member = |rng: &mut Rng, n: &str| -> String {
        if gen::shorthand_ok(n) && rng.chance(1, 2) {
            format!("@.{}", n)
        } else {
            format!("@[{}]", quote_single(n))
        }
    };
    let rich_atom = |rng: &mut Rng| -> String {
        match rng.below(10) {
            8 | 9 => {
                // regex functions over the node or one of its members; the pattern is a string that
                // occurs in the document (as is: it may not be a valid pattern) or a generic one
                let f = *rng.pick(&["match", "search"]);
                let strs: Vec<&String> = pairs.iter().filter_map(|(_, v)| v.as_str().map(|_| ())).zip(pairs.iter()).filter_map(|(_, (_, v))| if let Value::String(t) = v { Some(t) } else { None }).collect();
                let pat = if !strs.is_empty() && rng.chance(1, 2) { (*rng.pick(&strs)).clone() } else { (*rng.pick(&[".*", "a.*", "[a-z]+", "w.", ".", "x|y", "\\d+"])).to_string() };
                let arg = if !pairs.is_empty() && rng.chance(2, 3) {
                    let n = rng.pick(&pairs).0.clone();
                    member(rng, &n)
                } else {
                    "@".to_string()
                };
                format!("{}({}, {})", f, arg, quote_single(&pat))
            }
            0 | 1 if !pairs.is_empty() => {
                let (n, v) = rng.pick(&pairs).clone();
                format!("{} {} {}", member(rng, &n), rng.pick(&["==", "==", "!=", "<=", ">="]), lit(&v))
            }
            2 if !scalars.is_empty() => format!("@ {} {}", rng.pick(&["==", "==", "!=", "<", ">="]), lit(rng.pick(&scalars))),
            3 if !pairs.is_empty() => {
                let n = rng.pick(&pairs).0.clone();
                member(rng, &n)
            }
            4 if !pairs.is_empty() => {
                let n = rng.pick(&pairs).0.clone();
                format!("!{}", member(rng, &n))
            }
            5 => (*rng.pick(&["@[0]", "@[?@[?@]]", "@[?@[?@[?@]]]", "@[0,'a']"])).to_string(),
            6 => (*rng.pick(&["length(@) > 1", "count(@.*) == count($.*)", "length(@) == length($)", "value(@.a) == value(@.t)", "count(@..*) >= count(@.*)", "value(@[0]) != value(@[-1])"])).to_string(),
            _ => (*rng.pick(&["@", "@ > 0", "@ != null", "count(@.*) > 0"])).to_string(),
        }
    };
    let rich_filter = |rng: &mut Rng| -> String {
        match rng.below(6) {
            0 | 1 => rich_atom(rng),
            2 | 3 => format!("{} && {}", rich_atom(rng), rich_atom(rng)),
            4 => format!("{} || {}", rich_atom(rng), rich_atom(rng)),
            _ => format!("{} && ({} || {})", rich_atom(rng), rich_atom(rng), rich_atom(rng)),
        }
    };
    // one to three suffix segments: the combinations matter (a filter below a descendant below a slice,
    // a union holding a filter, nested filters)
    let n_suffix = match rng.weighted(&[6, 3, 1]) {
        0 => 1,
        1 => 2,
        _ => 3,
    };
    // under 60-120 levels of nesting every further descendant segment multiplies the node list by the
    // depth (88 s for one run seen): there, nothing follows the first descendant segment
    let deep = locs.iter().map(|l| l.len()).max().unwrap_or(0) > 30;
    let base_len = q.len();
    for round in 0..n_suffix {
    if deep && q[base_len..].contains("..") {
        break;
    }
    match if round == 0 { rng.weighted(&[4, 3, 3, 4, 3, 2, 2, 2, 2, 2, 3, 4]) } else { rng.weighted(&[0, 3, 3, 3, 3, 2, 2, 2, 2, 2, 3, 5]) } {
        0 => {}
        11 => {
            // one to three plain child segments (name, index, negative index): after a segment that
            // selected several nodes each of them applies to every one of those nodes
            if round == 0 && rng.chance(1, 2) {
                q.push_str(*rng.pick(&["[*]", ".*", "[0,1]", "[::-1]", "[?@]", "..*"]));
            }
            for _ in 0..1 + rng.below(3) {
                if rng.chance(2, 5) {
                    let n = some_name(rng);
                    if gen::shorthand_ok(&n) && rng.chance(1, 2) {
                        q.push_str(&format!(".{}", n));
                    } else {
                        let sel = name_sel(rng, &n);
                        q.push_str(&format!("[{}]", sel));
                    }
                } else {
                    q.push_str(&format!("[{}]", *rng.pick(&[0i64, -1, 1, -2, 2, -3, 0, -1])));
                }
            }
        }
        10 => {
            // a bracketed selector directly under the descendant operator
            let f = *rng.pick(&["..[?@]", "..[?@>0]", "..[?@.a]", "..[?@[0]]", "..[0]", "..[-1]", "..[1:]", "..[::2]", "..[*]", "..[?count(@.*)>0]", "..[0,1]", "..[?@!=null]"]);
            q.push_str(f);
        }
        9 => {
            // unions that hold a filter or a slice, nested filters, filters with sub-queries
            let n = some_name(rng);
            let sel = name_sel(rng, &n);
            let f = match rng.below(6) {
                0 => format!("[?@,{}]", rng.range(-2, 2)),
                1 => format!("[{},?@[0]]", sel),
                2 => "[?@[?@]]".to_string(),
                3 => "[?@[?@>0]]".to_string(),
                4 => format!("[0:2,{}]", rng.range(-3, 3)),
                _ => "[?count(@..*)>1]".to_string(),
            };
            q.push_str(&f);
        }
        1 => q.push_str(".*"),
        2 => q.push_str("[*]"),
        3 => q.push_str("..*"),
        4 => {
            if rng.chance(1, 2) {
                let f = rich_filter(rng);
                if rng.chance(1, 5) {
                    q.push_str(&format!("..[?{}]", f));
                } else {
                    q.push_str(&format!("[?{}]", f));
                }
            } else {
                let f = rng.pick(&["?@", "?@==@", "?@>0", "?@[0]", "?count(@.*)>0", "?length(@)>=0", "?@.a", "?!@.a", "?@!=null"]);
                q.push_str(&format!("[{}]", f));
            }
        }
        5 => {
            if rng.chance(1, 3) {
                q.push_str(*rng.pick(&["[0:2]", "[::2]", "[-1:]", "[::-1]", "[1:]", "[::-2]", "[::-3]", "[::3]"]));
            } else {
                let mut sl = String::from("[");
                if rng.chance(1, 2) {
                    sl.push_str(&rng.range(-9, 9).to_string());
                }
                sl.push(':');
                if rng.chance(1, 2) {
                    sl.push_str(&rng.range(-9, 9).to_string());
                }
                if rng.chance(2, 3) {
                    sl.push(':');
                    sl.push_str(&(*rng.pick(&[1i64, 2, 3, -1, -2, -3, -4, 4])).to_string());
                }
                sl.push(']');
                q.push_str(&sl);
            }
        }
        6 => {
            let n = some_name(rng);
            if gen::shorthand_ok(&n) && rng.chance(1, 2) {
                // the shorthand spelling directly under the descendant operator
                q.push_str(&format!("..{}", n));
            } else {
                let sel = name_sel(rng, &n);
                q.push_str(&format!("..[{}]", sel));
            }
        }
        7 => {
            let a = some_name(rng);
            let b = some_name(rng);
            let (sa, sb) = (name_sel(rng, &a), name_sel(rng, &b));
            q.push_str(&format!("[{},{}]", sa, sb));
        }
        _ => q.push_str(*rng.pick(&["[0,1]", "[1,0]", "[0,0]", "[-1,0]", "[0,'a']", "['a',0,'t']", "[0:0]", "[0:0,0]", "[::100]", "[1:1:-1]", "[-1,-1,0]"])),
    }
    }
    q
}

/// (member name, scalar value) pairs and scalar array elements that occur in the document (capped).
fn collect_pairs(v: &Value, pairs: &mut Vec<(String, Value)>, scalars: &mut Vec<Value>) {
    match v {
        Value::Object(o) => {
            for (k, x) in o {
                if !(x.is_object() || x.is_array()) && pairs.len() < 40 {
                    pairs.push((k.clone(), x.clone()));
                }
                collect_pairs(x, pairs, scalars);
            }
        }
        Value::Array(a) => {
            for x in a {
                if !(x.is_object() || x.is_array()) && scalars.len() < 40 {
                    scalars.push(x.clone());
                }
                collect_pairs(x, pairs, scalars);
            }
        }
        _ => {}
    }
}

fn gen_value(rng: &mut Rng, k: &mut u64) -> Value {
    *k += 1;
    let m = *k;
    match rng.weighted(&[5, 4, 2, 2, 2, 2, 1, 1, 1, 2]) {
        0 => json!(format!("w{}", m)),
        1 => json!(1000 + m),
        2 => json!([format!("w{}", m)]),
        3 => json!({ "a": m }),
        4 => json!({"0": m, "1": m}),
        5 => json!([m, m]),
        6 => json!({}),
        7 => json!([]),
        8 => Value::Null,
        _ => {
            let mut o = Map::new();
            o.insert(rng.pick(gen::NAMES_ADV).to_string(), json!(m));
            if rng.chance(1, 2) {
                o.insert(rng.pick(gen::NAMES_ADV).to_string(), json!(m));
            }
            Value::Object(o)
        }
    }
}

fn gen_miss(rng: &mut Rng, model: &Value, stats: &mut Stats) -> Loc {
    let locs = npath::all_locs(model);
    for _ in 0..8 {
        let mut base = rng.pick(&locs).clone();
        for _ in 0..2 {
            if npath::walk(model, &base).map(|v| v.is_array() || v.is_object()).unwrap_or(false) {
                break;
            }
            base = rng.pick(&locs).clone();
        }
        let v = npath::walk(model, &base).unwrap();
        let mut loc = base.clone();
        let kind: &'static str;
        match v {
            Value::Array(a) => match rng.below(6) {
                5 => {
                    // a negative index step that the index *selector* of a query would resolve from the
                    // end: no location has one (S122)
                    let k = if a.is_empty() { 1 } else { 1 + rng.below(a.len()) };
                    loc.push(Step::Big(format!("-{}", k)));
                    kind = "negative_index_within_length";
                }
                4 => {
                    // an index no array can have: beyond 2^53, beyond 2^63, and beyond 2^64 where the
                    // low 64 (or 32) bits spell an index that exists
                    let low = if a.is_empty() { 0u128 } else { rng.below(a.len()) as u128 };
                    let n: u128 = match rng.below(7) {
                        0 => (1u128 << 64) + low,
                        1 => (1u128 << 32) + low,
                        2 => (1u128 << 63) + low,
                        3 => (1u128 << 53) + low,
                        4 => (3u128 << 64) + low,
                        5 => 100_000_000_000_000_000_000_000_000u128 + low,
                        _ => u64::MAX as u128,
                    };
                    let d = n.to_string();
                    match d.parse::<usize>() {
                        Ok(i) => loc.push(Step::Idx(i)),
                        Err(_) => loc.push(Step::Big(d)),
                    }
                    kind = "index_huge";
                }
                0 => {
                    loc.push(Step::Idx(a.len()));
                    kind = "index_eq_len";
                }
                1 => {
                    loc.push(Step::Idx(a.len() + 1 + rng.below(3)));
                    kind = "index_gt_len";
                }
                2 => {
                    let i = if a.is_empty() { 0 } else { rng.below(a.len()) };
                    loc.push(Step::Name(i.to_string()));
                    kind = "name_step_on_array_spelling_an_index";
                }
                _ => {
                    loc.push(Step::Name(rng.pick(&["-1", "a", "", "00", "-"]).to_string()));
                    kind = "name_step_on_array";
                }
            },
            Value::Object(o) => match rng.below(4) {
                3 => {
                    // the name an existing member's name would denote if its backslash sequences were
                    // escapes (member `it\'s` present, `it's` absent): a resolver that falls back to the
                    // text as written turns this miss into a hit on the sibling
                    let mut found = None;
                    for k in o.keys() {
                        let un = k.replace("\\'", "'").replace("\\\"", "\"").replace("\\n", "\n").replace("\\t", "\t").replace("\\\\", "\\");
                        if un != *k && !o.contains_key(&un) {
                            found = Some(un);
                            break;
                        }
                    }
                    match found {
                        Some(n) => loc.push(Step::Name(n)),
                        None => loc.push(Step::Name("absent".into())),
                    }
                    kind = "unescaped_image_of_a_sibling";
                }
                0 => {
                    let mut n = rng.pick(gen::NAMES_ADV).to_string();
                    let mut g = 0;
                    while o.contains_key(&n) && g < 10 {
                        n.push('x');
                        g += 1;
                    }
                    loc.push(Step::Name(n));
                    kind = "absent_name";
                }
                1 => {
                    // an index step on an object, preferably one that has that decimal key
                    let idx = o.keys().filter_map(|k| k.parse::<usize>().ok().filter(|i| i.to_string() == *k)).next().unwrap_or(rng.below(2));
                    loc.push(Step::Idx(idx));
                    kind = "index_step_on_object";
                }
                _ => {
                    // a name that is the JSON-Pointer spelling of something that exists
                    let pick: Vec<&String> = o.keys().collect();
                    if pick.is_empty() {
                        loc.push(Step::Name("a".into()));
                    } else {
                        let k = (*rng.pick(&pick)).clone();
                        let n = if rng.chance(1, 2) { k.replace('~', "~0").replace('/', "~1") } else { format!("{}/{}", k, rng.pick(gen::NAMES_ADV)) };
                        loc.push(Step::Name(n));
                    }
                    kind = "pointer_lookalike_name";
                }
            },
            _ => {
                if rng.chance(1, 2) {
                    loc.push(Step::Idx(0));
                } else {
                    loc.push(Step::Name("a".into()));
                }
                kind = "below_scalar";
            }
        }
        if npath::walk(model, &loc).is_none() {
            *stats.miss_kinds.entry(kind.to_string()).or_insert(0) += 1;
            return loc;
        }
    }
    vec![Step::Name("no such".into()), Step::Idx(7)]
}

pub fn gen_doc(rng: &mut Rng) -> Value {
    let wide = rng.chance(1, 4);
    let big = rng.chance(1, 30);
    let p = if big { DocParams { max_nodes: 40 + rng.below(40), max_depth: 3 + rng.below(7), names: gen::NAMES_ADV, max_width: 10, long_arrays: true, mixed_names: true } } else { DocParams { max_nodes: if wide { 10 + rng.below(12) } else { 6 + rng.below(9) }, max_depth: if wide { 1 + rng.below(2) } else { 1 + rng.below(4) }, names: gen::NAMES_ADV, max_width: if wide { 12 } else { 4 }, long_arrays: true, mixed_names: true } };
    let mut d = gen::gen_doc(rng, &p);
    // one time in eight: records — siblings of the same shape (the same member names, arrays of
    // different lengths below them), so that a child segment after a multi-valued one finds something
    // in several of them
    if rng.chance(1, 8) {
        let k1 = rng.pick(gen::NAMES_ADV).to_string();
        let k2 = rng.pick(&["items", "a", "0", "it's", "k/2"]).to_string();
        let n = 2 + rng.below(4);
        let mut recs = vec![];
        for _ in 0..n {
            let len = rng.below(5);
            let inner: Vec<Value> = (0..len).map(|j| if rng.chance(1, 3) { json!([gen::scalar(rng), j]) } else if rng.chance(1, 3) { json!({ k2.clone(): [j, gen::scalar(rng)] }) } else { gen::scalar(rng) }).collect();
            let tag = match rng.below(3) {
                0 => json!("x"),
                1 => json!("y"),
                _ => json!(1),
            };
            let rec = match rng.below(4) {
                3 => json!({ k1.clone(): inner, "t": tag, "u": rng.below(2) }),
                0 => json!({ k1.clone(): inner, k2.clone(): { k1.clone(): gen::scalar(rng) } }),
                1 => Value::Array(vec![Value::Array(inner), gen::scalar(rng)]),
                _ => json!({ k2.clone(): { k1.clone(): inner } }),
            };
            recs.push(rec);
        }
        d = match rng.below(3) {
            0 => Value::Array(recs),
            1 => json!({ k1.clone(): recs, "d": d }),
            _ => json!([d, recs]),
        };
    }
    // now and then: an array with three-digit indexes
    if rng.chance(1, 120) {
        let n = 101 + rng.below(160);
        let arr: Vec<Value> = (0..n).map(|i| if i % 50 == 7 { json!({"a": i}) } else if i % 9 == 0 { json!([i]) } else { json!(i) }).collect();
        d = if rng.chance(1, 2) { json!({"big": arr, "d": d}) } else { Value::Array(arr) };
    }
    // now and then: an array of more than a thousand elements whose length is no round number
    if rng.chance(1, 500) {
        let n = *rng.pick(&[1025usize, 1030, 1500, 2049, 2100, 4097]);
        let arr: Vec<Value> = (0..n).map(|i| if i % 411 == 7 || i + 3 >= n { json!({"a": i, "t": "x"}) } else if i % 97 == 0 { json!([i]) } else { json!(i % 5) }).collect();
        d = if rng.chance(1, 2) { json!({"rows": arr, "d": d}) } else { Value::Array(arr) };
    }
    // now and then: the document under 60-120 (rarely 260-330) levels of nesting, or with a member name
    // of a few thousand bytes; some of the wrapping arrays have a second element
    if rng.chance(1, 250) {
        let levels = if rng.chance(1, 4) { 260 + rng.below(71) } else { 60 + rng.below(61) };
        for i in 0..levels {
            d = if i % 3 == 0 {
                json!({ "k": d })
            } else if i % 3 == 1 {
                if i % 2 == 0 {
                    json!([d])
                } else if i % 4 == 1 {
                    json!([d, { "k": i }])
                } else {
                    json!([[i], d])
                }
            } else {
                json!({ "": d })
            };
        }
    } else if rng.chance(1, 250) {
        let long = format!("{}{}", rng.pick(gen::NAMES_ADV), "n".repeat(1000 + rng.below(3000)));
        d = json!({ long: d, "a": 1 });
    }
    // pairs of names where one is the JSON-Pointer image / escape image of another, on purpose
    if rng.chance(1, 3) {
        let mut o = Map::new();
        let base = rng.pick(&["a/b", "a~1b", "~", "/", "x\\y", "'", "\n", "\"a\"", "0", "a'b"]).to_string();
        if rng.chance(2, 3) {
            o.insert(base.clone(), gen::scalar(rng));
        }
        for alt in [base.replace('/', "~1"), base.replace("~1", "/"), base.replace('\n', "\\n"), base.replace('\'', "\\'"), base.replace('\\', "\\\\"), format!("'{}'", base), format!("\"{}\"", base)] {
            if rng.chance(1, 2) {
                o.entry(alt).or_insert_with(|| gen::scalar(rng));
            }
        }
        if rng.chance(1, 2) {
            o.insert("a".into(), json!({"b": gen::scalar(rng)}));
        }
        if rng.chance(1, 2) {
            d = Value::Object(o);
        } else {
            d = json!([d, Value::Object(o)]);
        }
    }
    d
}

/// One simulated run: generates a history adaptively (recording literal ops) and checks it as it goes.
pub fn run(run_seed: u64, findings: &[Finding]) -> RunOut {
    let mut rng = Rng::new(run_seed);
    let doc = gen_doc(&mut rng);
    let mut ex = Exec::new(&doc, findings);
    // one history in eight gives every client an OS thread of its own (drawn apart from the main
    // stream, so that the histories themselves are what they were); a hand-over costs about 20 µs
    let threads = derive(run_seed, "c09threads", 0) % 8 == 0;
    ex.threads = threads;
    let n_clients = 1 + rng.below(3);
    let n_ops = 5 + rng.below(36);
    let mut stashes: Vec<Vec<Handle>> = (0..n_clients).map(|_| vec![]).collect();
    let mut ops: Vec<Op> = vec![];
    let mut marker = 0u64;
    // per-location last-write op index, to tell stale handles
    let mut writes: Vec<(Loc, usize)> = vec![];
    let mut stale_uses = 0u64;
    let mut gen_stats = Stats::default();
    let mut viol = None;
    let w_capture_loc = 3 + rng.below(4) as u32;
    let w_capture_miss = 1 + rng.below(3) as u32;
    let w_query = 1 + rng.below(3) as u32;
    let w_read = 3 + rng.below(4) as u32;
    let w_write = 2 + rng.below(5) as u32;
    let w_update = rng.below(3) as u32;
    let mut guard = 0;
    while ops.len() < n_ops && guard < 400 {
        guard += 1;
        let c = rng.below(n_clients);
        let have = !stashes[c].is_empty();
        let choice = rng.weighted(&[w_capture_loc, w_capture_miss, w_query, if have { w_read } else { 0 }, if have { w_write } else { 0 }, w_update]);
        let op = match choice {
            0 => {
                let locs = npath::all_locs(&ex.model);
                let loc = rng.pick(&locs).clone();
                stashes[c].push(Handle { path: npath::render(&loc), loc: Some(loc), born: ops.len() });
                continue;
            }
            1 => {
                if rng.chance(1, 6) {
                    // a string that is a query but not a path (negative index, wildcard, slice, filter, descendant,
                    // shorthand or double-quoted spelling): nothing is promised about it, but the calls are made,
                    // and whatever they leave behind shows in the judged operations that follow
                    let locs = npath::all_locs(&ex.model);
                    let picked: &Loc = rng.pick(&locs);
                    let base = npath::render(picked);
                    let odd = match rng.below(8) {
                        0 => format!("{}[-1]", base),
                        1 => format!("{}[*]", base),
                        2 => format!("{}[0:1]", base),
                        3 => format!("{}..a", base),
                        4 => format!("{}[?@]", base),
                        5 => format!("{}.a", base),
                        6 => format!("{}[\"a\"]", base),
                        _ => format!("{}[0,1]", base),
                    };
                    stashes[c].push(Handle { path: odd, loc: None, born: ops.len() });
                    continue;
                }
                let loc = gen_miss(&mut rng, &ex.model, &mut gen_stats);
                stashes[c].push(Handle { path: npath::render(&loc), loc: Some(loc), born: ops.len() });
                continue;
            }
            2 => {
                let mut names = vec![];
                gen::names_of(&ex.model, &mut names);
                Op::Capture { c: c as u8, q: gen_query(&mut rng, &ex.model, &names) }
            }
            3 | 4 => {
                let hi = rng.below(stashes[c].len());
                let h = &stashes[c][hi];
                if let Some(l) = &h.loc {
                    if writes.iter().any(|(wl, at)| *at >= h.born && (l.starts_with(wl) || wl.starts_with(l))) {
                        stale_uses += 1;
                    }
                }
                if choice == 3 {
                    Op::Read { c: c as u8, path: h.path.clone() }
                } else {
                    if rng.chance(1, 5) {
                        Op::Grow { c: c as u8, path: h.path.clone(), value: gen_value(&mut rng, &mut marker) }
                    } else if rng.chance(1, 6) {
                        Op::Shrink { c: c as u8, path: h.path.clone(), how: rng.below(3) as u8 }
                    } else {
                        Op::Write { c: c as u8, path: h.path.clone(), value: gen_value(&mut rng, &mut marker) }
                    }
                }
            }
            _ => {
                let mut names = vec![];
                gen::names_of(&ex.model, &mut names);
                let q = gen_query(&mut rng, &ex.model, &names);
                let n = 1 + rng.below(3);
                let values = (0..n).map(|_| gen_value(&mut rng, &mut marker)).collect();
                Op::UpdateAll { c: c as u8, q, values }
            }
        };
        let i = ops.len();
        let before = if matches!(op, Op::Write { .. } | Op::Grow { .. } | Op::Shrink { .. } | Op::UpdateAll { .. }) { Some(ex.model.clone()) } else { None };
        let out = ex.step(i, &op);
        if let Op::Write { path, .. } | Op::Grow { path, .. } | Op::Shrink { path, .. } = &op {
            if let Some(l) = npath::parse(path) {
                if before.as_ref() != Some(&ex.model) {
                    writes.push((l, i));
                }
            }
        }
        if let Op::UpdateAll { .. } = &op {
            if before.as_ref() != Some(&ex.model) {
                for p in &out.reported {
                    if let Some(l) = npath::parse(p) {
                        writes.push((l, i));
                    }
                }
            }
        }
        for p in &out.reported {
            if stashes[c].len() < 24 {
                let loc = npath::parse(p);
                stashes[c].push(Handle { path: p.clone(), loc, born: i + 1 });
            }
        }
        ops.push(op);
        if out.viol.is_some() {
            viol = out.viol;
            break;
        }
    }
    let mut stats = ex.stats.clone();
    stats.stale_uses = stale_uses;
    for (k, v) in gen_stats.miss_kinds {
        *stats.miss_kinds.entry(k).or_insert(0) += v;
    }
    let nontrivial = stale_uses > 0 && stats.writes_applied > 0;
    RunOut { history: History { seed: run_seed, doc, ops, threads, dbg: false }, viol, stats, kf_seen: ex.kf_seen, nontrivial }
}

// ---------------------------------------------------------------------------------------------
// minimisation

fn fails_same(h: &History, class: &str) -> Option<Viol> {
    fails_same_fresh(h, class)
}

fn shrink_value_candidates(v: &Value) -> Vec<Value> {
    let mut out = vec![];
    match v {
        Value::Array(a) => {
            for i in 0..a.len() {
                let mut b = a.clone();
                b.remove(i);
                out.push(Value::Array(b));
            }
            for i in 0..a.len() {
                for c in shrink_value_candidates(&a[i]) {
                    let mut b = a.clone();
                    b[i] = c;
                    out.push(Value::Array(b));
                }
            }
        }
        Value::Object(o) => {
            let keys: Vec<String> = o.keys().cloned().collect();
            for k in &keys {
                let mut b = o.clone();
                b.remove(k);
                out.push(Value::Object(b));
            }
            for k in &keys {
                for c in shrink_value_candidates(&o[k]) {
                    let mut b = o.clone();
                    b.insert(k.clone(), c);
                    out.push(Value::Object(b));
                }
            }
        }
        Value::Null => {}
        Value::Number(n) if n.as_i64() == Some(0) => {}
        _ => out.push(json!(0)),
    }
    out
}

pub fn minimise(h: &History, class: &str) -> History {
    let mut cur = h.clone();
    // every candidate is a fresh process: minimisation is bounded by the clock as well (what has been
    // reached by then is reported; it still fails the same way)
    let started = std::time::Instant::now();
    let out_of_time = || started.elapsed().as_secs() > 150;
    // 1. ddmin over the op list
    let mut n = 2usize;
    while cur.ops.len() >= 2 && !out_of_time() {
        let len = cur.ops.len();
        let chunk = (len + n - 1) / n;
        let mut reduced = false;
        let mut start = 0;
        while start < len {
            let end = (start + chunk).min(len);
            let mut cand = cur.clone();
            cand.ops.drain(start..end);
            if !cand.ops.is_empty() && fails_same(&cand, class).is_some() {
                cur = cand;
                n = (n - 1).max(2);
                reduced = true;
                break;
            }
            start = end;
        }
        if !reduced {
            if n >= len {
                break;
            }
            n = (n * 2).min(len);
        }
    }
    // 2. shrink the initial document
    let mut progress = true;
    let mut rounds = 0;
    while progress && rounds < 200 && !out_of_time() {
        progress = false;
        rounds += 1;
        for cand_doc in shrink_value_candidates(&cur.doc) {
            if out_of_time() {
                break;
            }
            let cand = History { seed: cur.seed, doc: cand_doc, ops: cur.ops.clone(), threads: cur.threads, dbg: cur.dbg };
            if fails_same(&cand, class).is_some() {
                cur = cand;
                progress = true;
                break;
            }
        }
    }
    // 3. simplify written values
    for i in 0..cur.ops.len() {
        if let Op::Write { c, path, value } = &cur.ops[i] {
            if *value != json!(0) {
                let mut cand = cur.clone();
                cand.ops[i] = Op::Write { c: *c, path: path.clone(), value: json!(0) };
                if fails_same(&cand, class).is_some() {
                    cur = cand;
                }
            }
        }
    }
    cur
}

// ---------------------------------------------------------------------------------------------
// driver

pub struct Tier {
    pub name: &'static str,
    pub runs: u64,
}

pub fn tier(name: &str) -> Tier {
    match name {
        "thorough" => Tier { name: "thorough", runs: 30_000_000 },
        _ => Tier { name: "quick", runs: 1_000_000 },
    }
}

fn replay_body(h: &History, v: &Viol, orig_ops: usize) -> Value {
    json!({
        "property": "C09",
        "kind": "c09-history",
        "class": v.class,
        "violation": v,
        "history": h,
        "ops_before_minimisation": orig_ops,
        "how_to_replay": "./check C09 --replay <this file>",
    })
}

/// One simulated process lifetime: a list of runs executed one after the other on one thread.
#[derive(Serialize, Deserialize)]
pub struct ChunkReq {
    pub seed: u64,
    pub runs: Vec<u64>,
    /// stop after the first violation (used when replaying a prefix)
    #[serde(default)]
    pub stop_at_first: bool,
    /// run by the build with debug assertions on (one chunk in four, if that build exists)
    #[serde(default)]
    pub dbg: bool,
}

#[derive(Serialize, Deserialize, Default)]
pub struct ChunkOut {
    pub stats: Stats,
    pub shapes: Vec<u64>,
    pub nontrivial_runs: u64,
    pub n_viol: u64,
    pub first_viol: Option<(u64, History, Viol)>,
    pub kf: Vec<(String, Viol)>,
    pub samples: Vec<Value>,
    pub ops_total: u64,
    pub classes: BTreeMap<String, u64>,
}

pub fn run_chunk(req: &ChunkReq, findings: &[Finding]) -> ChunkOut {
    let mut out = ChunkOut::default();
    for (pos, i) in req.runs.iter().enumerate() {
        let rs = derive(req.seed, "c09run", *i);
        let t_run = std::time::Instant::now();
        let r = run(rs, findings);
        if std::env::var("VERIF_C09_PROFILE").is_ok() && t_run.elapsed().as_millis() > 300 {
            let qs: Vec<String> = r.history.ops.iter().filter_map(|o| match o { Op::Capture { q, .. } | Op::UpdateAll { q, .. } => Some(q.chars().take(80).collect()), _ => None }).collect();
            // the switch names a file: chunk processes have no terminal
            if let Ok(mut f) = std::fs::OpenOptions::new().create(true).append(true).open(std::env::var("VERIF_C09_PROFILE").unwrap()) {
                use std::io::Write;
                let _ = writeln!(f, "slow run {}: {} ms, doc {} bytes, queries {:?}", i, t_run.elapsed().as_millis(), r.history.doc.to_string().len(), qs);
            }
        }
        out.stats.merge(&r.stats);
        out.ops_total += r.history.ops.len() as u64;
        if r.nontrivial {
            out.nontrivial_runs += 1;
            out.shapes.push(r.stats.shape);
        }
        for (k, v) in r.kf_seen {
            if !out.kf.iter().any(|(k2, _)| *k2 == k) {
                out.kf.push((k, v));
            }
        }
        if *i < 2 || (r.nontrivial && out.samples.is_empty() && pos < 50 && req.runs[0] == 0) {
            out.samples.push(json!({"run": i, "run_seed": rs, "doc": r.history.doc, "ops": r.history.ops}));
        }
        if let Some(v) = r.viol {
            out.n_viol += 1;
            *out.classes.entry(viol_label(&v)).or_insert(0) += 1;
            if out.first_viol.is_none() {
                let mut h = r.history;
                h.dbg = req.dbg;
                out.first_viol = Some((*i, h, v));
            }
            if req.stop_at_first {
                break;
            }
        }
    }
    out
}

/// `sim c09-chunk`: request on stdin, result on stdout.
pub fn chunk_main() -> i32 {
    let mut text = String::new();
    std::io::Read::read_to_string(&mut std::io::stdin(), &mut text).expect("stdin");
    let req: ChunkReq = match crate::report::from_json(&text) {
        Ok(r) => r,
        Err(e) => {
            eprintln!("harness error: bad chunk request: {}", e);
            return 2;
        }
    };
    let findings = report::load_findings("C09");
    crate::c12::install_panic_hook();
    std::env::set_var("VERIF_QUIET_PANICS", "1");
    let out = run_chunk(&req, &findings);
    println!("{}", serde_json::to_string(&out).unwrap());
    0
}

/// `sim c09-exec`: one literal history on stdin, executed as the only work of this process.
pub fn exec_main() -> i32 {
    let mut text = String::new();
    std::io::Read::read_to_string(&mut std::io::stdin(), &mut text).expect("stdin");
    let h: History = match crate::report::from_json(&text) {
        Ok(r) => r,
        Err(e) => {
            eprintln!("harness error: bad history: {}", e);
            return 2;
        }
    };
    let findings = report::load_findings("C09");
    crate::c12::install_panic_hook();
    std::env::set_var("VERIF_QUIET_PANICS", "1");
    let (v, _, seen) = exec_history(&h, &findings);
    println!("{}", serde_json::to_string(&json!({"viol": v, "kf": seen})).unwrap());
    0
}

fn spawn_chunk(req: &ChunkReq) -> Result<ChunkOut, String> {
    let out = crate::c12::spawn_exe_with_input(req.dbg, &["c09-chunk"], &serde_json::to_string(req).unwrap(), 3600)?;
    crate::report::from_json(out.trim()).map_err(|e| format!("bad chunk output: {}", e))
}

/// Executes a history in a fresh process; returns its violation, if any.
fn exec_fresh(h: &History) -> Result<(Option<Viol>, Vec<(String, Viol)>), String> {
    let out = crate::c12::spawn_exe_with_input(h.dbg, &["c09-exec"], &serde_json::to_string(h).unwrap(), 60)?;
    let v: Value = crate::report::from_json(out.trim()).map_err(|e| format!("bad exec output: {}", e))?;
    let viol: Option<Viol> = serde_json::from_value(v["viol"].clone()).map_err(|e| e.to_string())?;
    let kf: Vec<(String, Viol)> = serde_json::from_value(v["kf"].clone()).unwrap_or_default();
    Ok((viol, kf))
}

fn fails_same_fresh(h: &History, class: &str) -> Option<Viol> {
    exec_fresh(h).ok().and_then(|(v, _)| v).filter(|v| v.class == class)
}

pub fn drive(tier_name: &str, seed: u64, workers: usize) -> i32 {
    let t0 = std::time::Instant::now();
    let t = tier(tier_name);
    let runs = std::env::var("VERIF_C09_RUNS").ok().and_then(|s| s.parse().ok()).unwrap_or(t.runs);
    let findings = report::load_findings("C09");
    println!("C09 tier={} VERIF_SEED={} runs={} workers={}", t.name, seed, runs, workers);

    // the witness histories of the listed findings run first, each in a fresh process: an open finding
    // is re-confirmed (or reported as no longer reproducing), a fixed one must simply pass
    let mut kf_lines: BTreeMap<String, String> = BTreeMap::new();
    for f in &findings {
        if let Ok(h) = serde_json::from_value::<History>(f.witness.clone()) {
            let (v, seen) = match exec_fresh(&h) {
                Ok(x) => x,
                Err(e) => {
                    eprintln!("harness error: witness of {}: {}", f.key, e);
                    return 2;
                }
            };
            if f.status == "open" {
                if let Some((_, w)) = seen.iter().find(|(k, _)| k == &f.key) {
                    kf_lines.insert(f.key.clone(), format!("{} path {} reported by query {} — {}", w.class, w.path, w.q.clone().unwrap_or_default(), w.detail));
                } else {
                    println!("note: listed finding {} did not reproduce from its witness on this tree", f.key);
                }
            }
            if let Some(v) = v {
                let p = report::write_replay("C09", &format!("witness-{}", f.key), &replay_body(&h, &v, h.ops.len()));
                println!("violation class={} in the witness history of {}: {} — {}", v.class, f.key, v.path, v.detail);
                report::print_violation("C09", &p);
                return 1;
            }
        }
    }

    // every chunk of runs is one simulated process lifetime: a fresh OS process executing its runs one
    // after the other on one thread, so that whatever a run can observe is a function of (seed, chunk)
    let chunk = 5000u64;
    let n_chunks = (runs + chunk - 1) / chunk;
    let have_dbg = crate::c12::dbg_exe().is_some();
    let reqs: Vec<ChunkReq> = (0..n_chunks).map(|ci| ChunkReq { seed, runs: ((ci * chunk)..((ci + 1) * chunk).min(runs)).collect(), stop_at_first: false, dbg: have_dbg && ci % 4 == 3 }).collect();
    let results = crate::c12::par_map(&reqs, workers, |r| spawn_chunk(r));
    let mut total = Stats::default();
    let mut shapes = BTreeSet::new();
    let mut nontrivial_runs = 0;
    let mut n_viol = 0;
    let mut first: Option<(u64, History, Viol)> = None;
    let mut first_chunk = 0usize;
    let mut samples = vec![];
    let mut ops_total = 0;
    let mut kf: BTreeMap<String, Viol> = BTreeMap::new();
    let mut classes: BTreeMap<String, u64> = BTreeMap::new();
    for (ci, r) in results.into_iter().enumerate() {
        let a = match r {
            Ok(a) => a,
            Err(e) => {
                eprintln!("harness error: chunk {}: {}", ci, e);
                return 2;
            }
        };
        for (k, v) in &a.classes {
            *classes.entry(k.clone()).or_insert(0) += v;
        }
        total.merge(&a.stats);
        shapes.extend(a.shapes);
        nontrivial_runs += a.nontrivial_runs;
        n_viol += a.n_viol;
        ops_total += a.ops_total;
        if first.is_none() && a.first_viol.is_some() {
            first = a.first_viol;
            first_chunk = ci;
        }
        if samples.len() < 3 {
            samples.extend(a.samples);
        }
        for (k, v) in a.kf {
            kf.entry(k).or_insert(v);
        }
    }
    samples.truncate(3);
    for (k, w) in &kf {
        kf_lines.entry(k.clone()).or_insert_with(|| format!("{} path {} reported by query {} — {}", w.class, w.path, w.q.clone().unwrap_or_default(), w.detail));
    }
    for (k, line) in &kf_lines {
        println!("KNOWN-FINDING: property=C09 {} {}", k, line);
    }
    if !classes.is_empty() {
        println!("violations by class and feature: {}", serde_json::to_string(&classes).unwrap());
    }
    let mut exit = 0;
    let mut replay_path = None;
    if let Some((i, h, v)) = &first {
        if fails_same_fresh(h, &v.class).is_some() {
            // the history fails on its own in a fresh process: minimise it there
            let min = minimise(h, &v.class);
            let mv = fails_same_fresh(&min, &v.class).unwrap_or(v.clone());
            let p = report::write_replay("C09", &format!("seed{}-run{}", seed, i), &replay_body(&min, &mv, h.ops.len()));
            println!("violation class={} run={} ops={} (minimised from {}): {} — {}", mv.class, i, min.ops.len(), h.ops.len(), mv.path, mv.detail);
            report::print_violation("C09", &p);
            replay_path = Some(p);
        } else {
            // it needs the runs that came before it in its process: the replay is that prefix, reduced
            let start = first_chunk as u64 * chunk;
            let mut prefix: Vec<u64> = (start..*i).collect();
            let fails = |runs: &Vec<u64>| -> bool {
                let mut r = runs.clone();
                r.push(*i);
                spawn_chunk(&ChunkReq { seed, runs: r, stop_at_first: true, dbg: h.dbg }).ok().and_then(|o| o.first_viol).map(|(j, _, v2)| j == *i && v2.class == v.class).unwrap_or(false)
            };
            let mut n = 2usize;
            let mut budget = 80;
            while prefix.len() >= 1 && budget > 0 {
                let len = prefix.len();
                let sz = ((len + n - 1) / n).max(1);
                let mut reduced = false;
                let mut s0 = 0;
                while s0 < len && budget > 0 {
                    let e0 = (s0 + sz).min(len);
                    let mut cand = prefix.clone();
                    cand.drain(s0..e0);
                    budget -= 1;
                    if fails(&cand) {
                        prefix = cand;
                        n = (n - 1).max(2);
                        reduced = true;
                        break;
                    }
                    s0 = e0;
                }
                if !reduced {
                    if sz == 1 {
                        break;
                    }
                    n = (n * 2).min(len);
                }
            }
            let mut runs_list = prefix.clone();
            runs_list.push(*i);
            let body = json!({"property": "C09", "kind": "c09-runs", "class": v.class, "violation": v, "seed": seed, "runs": runs_list, "failing_run": i, "failing_history": h, "dbg": h.dbg,
                "note": "the failing history passes when it is the only work of a process: the violation depends on what ran before it in the same process; the replay executes the listed runs in order in one fresh process",
                "how_to_replay": "./check C09 --replay <this file>"});
            let p = report::write_replay("C09", &format!("seed{}-run{}", seed, i), &body);
            println!("violation class={} run={} (needs {} earlier runs of its process): {} — {}", v.class, i, prefix.len(), v.path, v.detail);
            report::print_violation("C09", &p);
            replay_path = Some(p);
        }
        exit = 1;
    }
    let wall = t0.elapsed().as_secs_f64();
    let cov = json!({
        "evaluations": runs,
        "distinct_nontrivial": shapes.len(),
        "rule": "one evaluation = one seeded history (5-40 library operations by 1-3 simulated clients holding path handles) against the location-addressed reference model; non-trivial = the history used at least one stale handle (a write landed on, above or below the handle's location after it was captured) and applied at least one write; distinct = distinct FNV signature of the (operation kind, hit/miss outcome) sequence",
        "samples": samples,
        "nontrivial_histories": nontrivial_runs,
        "simulated_process_lifetimes": n_chunks,
        "operations_total": ops_total,
        "operations_by_kind": total.ops,
        "judged_hits": total.hits,
        "judged_misses": total.misses,
        "writes_applied_with_frame_check": total.writes_applied,
        "uses_of_non_normalized_strings_not_judged": total.not_judged,
        "query_errors_ignored": total.query_errors,
        "paths_echoed_by_queries": total.echoed_paths,
        "paths_echoed_that_equal_the_normalized_path": total.echoed_normalized,
        "stale_handle_uses": total.stale_uses,
        "operations_run_on_their_clients_own_os_thread": total.ops_on_client_threads,
        "queries_fed_back_through_query_only_path_and_query": total.captures_through_query_only_path,
        "member_name_classes_on_judged_hits": total.name_classes,
        "miss_kinds_captured": total.miss_kinds,
        "known_finding_matches": total.kf_hits,
        "violations_by_class": classes,
        "runs_per_hour": (runs as f64 / wall * 3600.0) as u64,
        "simulated_time": "not applicable: the system under test reads no clock; the unit is the library operation",
        "faults_injected": {"stale_handle_use": total.stale_uses, "note": "no I/O, crash or clock fault exists for this property; a handle made stale by another client's write is the only fault kind"},
        "real_components": ["jsonpath-rust reference/reference_mut/query_with_path on serde_json::Value", "parser (paths are parsed by the library)", "serde_json"],
        "stubbed_components": ["clients are simulated by one PRNG-driven loop (Rust's &mut forbids concurrent writers)", "reference model: a second serde_json::Value addressed only by the checker's own location walker", "a long-lived process: runs execute in chunks of 5000, each chunk in a fresh single-threaded OS process"],
        "replay": replay_path.map(|p| p.display().to_string()),
    });
    report::write_evidence(&report::Evidence {
        property: "C09".into(),
        tier: t.name.into(),
        seed,
        wall_s: wall,
        violations: n_viol as usize,
        coverage: cov,
        assumptions: vec![
            "serde_json::Value equality and the checker's own location walker are trusted".into(),
            "only strings that are well-formed Normalized Paths (RFC 9535 §2.7) are judged by the model; any other string is judged only at the moment a query reports it".into(),
        ],
    });
    println!("C09 done: runs={} ops={} nontrivial={} distinct_shapes={} violations={} wall={:.1}s", runs, ops_total, nontrivial_runs, shapes.len(), n_viol, wall);
    exit
}

pub fn replay(body: &Value) -> i32 {
    let path = std::env::var("VERIF_REPLAY_PATH").unwrap_or_default();
    if body["kind"].as_str() == Some("c09-runs") {
        let seed = body["seed"].as_u64().unwrap_or(1);
        let runs: Vec<u64> = serde_json::from_value(body["runs"].clone()).unwrap_or_default();
        let failing = body["failing_run"].as_u64().unwrap_or(0);
        return match spawn_chunk(&ChunkReq { seed, runs, stop_at_first: true, dbg: body["dbg"].as_bool().unwrap_or(false) }) {
            Ok(o) => match o.first_viol {
                Some((i, _, v)) => {
                    println!("replayed: run {} (recorded failing run {}) class={} path={} — {}", i, failing, v.class, v.path, v.detail);
                    println!("VIOLATION property=C09 replay={}", path);
                    1
                }
                None => {
                    println!("replay: the listed runs no longer violate C09 on this tree");
                    0
                }
            },
            Err(e) => {
                eprintln!("harness error: {}", e);
                2
            }
        };
    }
    let h: History = match serde_json::from_value(body["history"].clone()) {
        Ok(h) => h,
        Err(e) => {
            eprintln!("harness error: bad replay file: {}", e);
            return 2;
        }
    };
    let findings = report::load_findings("C09");
    let (v, _, _) = exec_history(&h, &findings);
    match v {
        Some(v) => {
            println!("replayed: class={} op={} path={} — {}", v.class, v.op_index, v.path, v.detail);
            println!("VIOLATION property=C09 replay={}", path);
            1
        }
        None => {
            println!("replay: the history no longer violates C09 on this tree");
            0
        }
    }
}

#[cfg(test)]
mod kf_tests {
    use super::*;

    fn finding(key: &str, dep: &str) -> Finding {
        serde_json::from_value(json!({"property": "C09", "key": key, "status": "open", "predicate": {"classifier": "c09.echo", "departs_at_echo_of": dep}})).unwrap()
    }
    fn echo(path: &str, q: &str, want: &str) -> Viol {
        Viol { op_index: 0, class: "echo-unresolved".into(), path: path.into(), q: Some(q.into()), detail: String::new(), want_path: Some(want.into()) }
    }

    #[test]
    fn predicates_are_narrow() {
        let fs = vec![finding("KF1", "double_quoted_name_selector"), finding("KF2", "single_quoted_name_selector_with_escape_other_than_bs_slash")];
        // the two listed defects
        assert_eq!(kf_match(&echo("$['\"a\"']", "$[\"a\"]", "$['a']"), &fs).map(|f| f.key.as_str()), Some("KF1"));
        assert_eq!(kf_match(&echo("$['\\n']", "$['\\n']", "$['\\\\n']"), &fs).map(|f| f.key.as_str()), Some("KF2"));
        // the same queries, but the path goes wrong somewhere else: not a known finding
        assert!(kf_match(&echo("$['x'][2]", "$['x'][\"a\"]", "$['x'][1]"), &fs).is_none());
        assert!(kf_match(&echo("$[0]['\\n']", "$[1]['\\n']", "$[1]['\\n']"), &fs).is_none());
        // a benign spelling of a solidus in front of a double-quoted echo is skipped, the echo behind it is recognised
        assert_eq!(kf_match(&echo("$['a\\/']['\"b\"']", "$['a\\/'][\"b\"]", "$['a/']['b']"), &fs).map(|f| f.key.as_str()), Some("KF1"));
        // ... but a benign spelling alone is no reason to forgive a wrong index behind it
        assert!(kf_match(&echo("$['a\\/'][1]", "$['a\\/'][::-2]", "$['a/'][2]"), &fs).is_none());
        // a path that equals the Normalized Path and still does not resolve is never a known finding
        assert!(kf_match(&echo("$['a']", "$[\"a\"]", "$['a']"), &fs).is_none());
        // other classes are never matched
        let mut v = echo("$['\"a\"']", "$[\"a\"]", "$['a']");
        v.class = "read-missing".into();
        assert!(kf_match(&v, &fs).is_none());
        // a fixed entry suppresses nothing
        let mut fixed = finding("FX", "double_quoted_name_selector");
        fixed.status = "fixed".into();
        assert!(kf_match(&echo("$['\"a\"']", "$[\"a\"]", "$['a']"), &[fixed]).is_none());
    }

    #[test]
    fn unescape() {
        assert_eq!(rfc_unescape("a\\/b").as_deref(), Some("a/b"));
        assert_eq!(rfc_unescape("\\uD83D\\uDE00").as_deref(), Some("\u{1F600}"));
        assert_eq!(rfc_unescape("\\u000b").as_deref(), Some("\u{b}"));
        assert_eq!(rfc_unescape("\\x"), None);
    }
}
