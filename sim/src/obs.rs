//! Canonical, address-free observations of the public API, shared by the cold oracle process and
//! by simulated runs, plus the document holder used by the harness.
use crate::npath::{self, Step};
use crate::simdoc::SimDoc;
use jsonpath_rust::parser::model::JpQuery;
use jsonpath_rust::parser::parse_json_path;
use jsonpath_rust::query::queryable::Queryable;
use jsonpath_rust::query::{js_path_process, QueryRef};
use jsonpath_rust::JsonPath;
use serde_json::Value;
use crate::allocseam::in_library;
use std::collections::HashMap;

pub type LocMap = HashMap<usize, String>;

pub enum DocInner {
    V(Value),
    S(SimDoc),
}

/// A document instance: content, address → location map (built by harness-side walks only).
pub struct DocBox {
    pub inner: DocInner,
    pub locs: LocMap,
    pub content: usize,
    pub root_addr: usize,
}

fn locs_value(v: &Value, cur: &mut Vec<Step>, out: &mut LocMap) {
    out.insert(v as *const Value as usize, npath::loc_str(cur));
    match v {
        Value::Array(a) => {
            for (i, x) in a.iter().enumerate() {
                cur.push(Step::Idx(i));
                locs_value(x, cur, out);
                cur.pop();
            }
        }
        Value::Object(o) => {
            for (k, x) in o {
                cur.push(Step::Name(k.clone()));
                locs_value(x, cur, out);
                cur.pop();
            }
        }
        _ => {}
    }
}

fn locs_sim(v: &SimDoc, cur: &mut Vec<Step>, out: &mut LocMap) {
    out.insert(v as *const SimDoc as usize, npath::loc_str(cur));
    for (st, x) in v.children() {
        cur.push(st);
        locs_sim(x, cur, out);
        cur.pop();
    }
}

impl DocBox {
    /// `sim`: represent as SimDoc. The box is pinned by the caller (inside an Arc) before locs are taken.
    pub fn new(v: &Value, sim: bool, content: usize) -> std::sync::Arc<DocBox> {
        let inner = if sim { DocInner::S(SimDoc::from_value(v)) } else { DocInner::V(v.clone()) };
        let mut arc = std::sync::Arc::new(DocBox { inner, locs: LocMap::new(), content, root_addr: 0 });
        let mut locs = LocMap::new();
        let root_addr;
        match &arc.inner {
            DocInner::V(v) => {
                locs_value(v, &mut vec![], &mut locs);
                root_addr = v as *const Value as usize;
            }
            DocInner::S(s) => {
                locs_sim(s, &mut vec![], &mut locs);
                root_addr = s as *const SimDoc as usize;
            }
        }
        let b = std::sync::Arc::get_mut(&mut arc).unwrap();
        b.locs = locs;
        b.root_addr = root_addr;
        arc
    }
    /// The caller's own in-place update of a `Value` document into `new` (members removed and added,
    /// strings rewritten in their buffers, elements assigned): the root and every node that stays keep
    /// their addresses. Returns false (nothing done) for the stubbed store.
    pub fn edit_in_place(&mut self, new: &Value, content: usize) -> bool {
        fn assign(old: &mut Value, new: &Value) {
            match (old, new) {
                (Value::Object(o), Value::Object(n)) => {
                    o.retain(|k, _| n.contains_key(k));
                    for (k, v) in n {
                        match o.get_mut(k) {
                            Some(x) => assign(x, v),
                            None => {
                                o.insert(k.clone(), v.clone());
                            }
                        }
                    }
                }
                (Value::Array(o), Value::Array(n)) => {
                    o.truncate(n.len());
                    let keep = o.len();
                    for i in 0..keep {
                        assign(&mut o[i], &n[i]);
                    }
                    for x in &n[keep..] {
                        o.push(x.clone());
                    }
                }
                (Value::String(o), Value::String(n)) => {
                    if o != n {
                        o.clear();
                        o.push_str(n);
                    }
                }
                (o, n) => {
                    if o != n {
                        *o = n.clone();
                    }
                }
            }
        }
        let DocInner::V(v) = &mut self.inner else { return false };
        assign(v, new);
        assert!(*v == *new, "harness: in-place edit did not arrive at the planned content");
        let mut locs = LocMap::new();
        locs_value(v, &mut vec![], &mut locs);
        self.root_addr = v as *const Value as usize;
        self.locs = locs;
        self.content = content;
        true
    }
    pub fn to_json(&self) -> String {
        match &self.inner {
            DocInner::V(v) => v.to_string(),
            DocInner::S(s) => s.to_value().to_string(),
        }
    }
}

pub trait Subject: JsonPath + Sized {
    fn json(&self) -> String;
}
impl Subject for Value {
    fn json(&self) -> String {
        self.to_string()
    }
}
impl Subject for SimDoc {
    fn json(&self) -> String {
        self.to_value().to_string()
    }
}

fn loc_of<T>(locs: &LocMap, r: &T) -> String {
    locs.get(&(r as *const T as usize)).cloned().unwrap_or_else(|| "FOREIGN".to_string())
}

pub fn fmt_w<T: Subject>(locs: &LocMap, res: Vec<QueryRef<T>>) -> String {
    let mut s = String::from("Ok[");
    for (i, r) in res.into_iter().enumerate() {
        if i > 0 {
            s.push(';');
        }
        let path = r.clone().path();
        let node: &T = r.val();
        s.push_str(&loc_of(locs, node));
        s.push('|');
        s.push_str(&path);
        s.push('|');
        s.push_str(&node.json());
    }
    s.push(']');
    s
}

pub fn obs_w<T: Subject>(doc: &T, locs: &LocMap, q: &str) -> String {
    match in_library(|| doc.query_with_path(q)) {
        Ok(res) => fmt_w(locs, res),
        Err(_) => "Err".into(),
    }
}

pub fn obs_p<T: Subject>(doc: &T, q: &str) -> String {
    match in_library(|| doc.query_only_path(q)) {
        Ok(res) => format!("Ok[{}]", res.join(";")),
        Err(_) => "Err".into(),
    }
}

pub fn obs_q<T: Subject>(doc: &T, locs: &LocMap, q: &str) -> String {
    match in_library(|| doc.query(q)) {
        Ok(res) => {
            let items: Vec<String> = res.into_iter().map(|n| format!("{}|{}", loc_of(locs, n), n.json())).collect();
            format!("Ok[{}]", items.join(";"))
        }
        Err(_) => "Err".into(),
    }
}

pub fn obs_e<T: Subject>(doc: &T, locs: &LocMap, pq: &Result<JpQuery, ()>) -> String {
    match pq {
        Err(_) => "Err".into(),
        Ok(pq) => match in_library(|| js_path_process(pq, doc)) {
            Ok(res) => fmt_w(locs, res),
            Err(_) => "Err".into(),
        },
    }
}

pub fn parse(q: &str) -> Result<JpQuery, ()> {
    in_library(|| parse_json_path(q)).map_err(|_| ())
}

pub fn obs_parse(pq: &Result<JpQuery, ()>) -> String {
    match pq {
        Ok(p) => format!("Ok({:?})", p),
        Err(_) => "Err".into(),
    }
}

pub fn obs_ref<T: Subject>(doc: &T, locs: &LocMap, path: &str) -> String {
    let path = path.to_string();
    match in_library(|| doc.reference(path)) {
        Some(n) => format!("Some({})", loc_of(locs, n)),
        None => "None".into(),
    }
}

/// The index steps of a location in its address-free spelling (`/n:6162/i:3` → ["3"]).
fn loc_index_steps(loc: &str) -> Vec<String> {
    loc.split('/').filter_map(|s| s.strip_prefix("i:")).map(|s| s.to_string()).collect()
}

/// The index steps of a reported path, as written: bracketed digit strings outside quoted names.
/// None if the text is not of the form `$` (`['…']` | `[digits]`)*.
fn path_index_steps(path: &str) -> Option<Vec<String>> {
    let cs: Vec<char> = path.chars().collect();
    if cs.first() != Some(&'$') {
        return None;
    }
    let mut i = 1;
    let mut out = vec![];
    while i < cs.len() {
        if cs[i] != '[' {
            return None;
        }
        i += 1;
        if i < cs.len() && cs[i] == '\'' {
            i += 1;
            loop {
                if i >= cs.len() {
                    return None;
                }
                match cs[i] {
                    '\\' => i += 2,
                    '\'' if i + 1 < cs.len() && cs[i + 1] == ']' => {
                        i += 2;
                        break;
                    }
                    _ => i += 1,
                }
            }
        } else {
            let st = i;
            while i < cs.len() && cs[i].is_ascii_digit() {
                i += 1;
            }
            if i == st || i >= cs.len() || cs[i] != ']' {
                return None;
            }
            out.push(cs[st..i].iter().collect());
            i += 1;
        }
    }
    Some(out)
}

/// Structured W/P/Q results for the agreement check (no string splitting involved).
pub struct Triple {
    pub w: Result<Vec<(String, String, String)>, ()>,
    pub p: Result<Vec<String>, ()>,
    pub q: Result<Vec<(String, String)>, ()>,
    pub e: Result<Vec<(String, String, String)>, ()>,
}

pub fn triple<T: Subject>(doc: &T, locs: &LocMap, query: &str) -> Triple {
    let conv = |res: Vec<QueryRef<T>>| -> Vec<(String, String, String)> {
        res.into_iter()
            .map(|r| {
                let path = r.clone().path();
                let node: &T = r.val();
                (loc_of(locs, node), path, node.json())
            })
            .collect()
    };
    let w = doc.query_with_path(query).map(conv).map_err(|_| ());
    let p = doc.query_only_path(query).map_err(|_| ());
    let q = doc.query(query).map(|v| v.into_iter().map(|n| (loc_of(locs, n), n.json())).collect()).map_err(|_| ());
    let e = match parse_json_path(query) {
        Err(_) => Err(()),
        Ok(pq) => js_path_process(&pq, doc).map(conv).map_err(|_| ()),
    };
    Triple { w, p, q, e }
}

impl Triple {
    /// None if the four entry points agree position by position, else a description.
    pub fn disagreement(&self) -> Option<String> {
        match (&self.w, &self.p, &self.q, &self.e) {
            (Err(_), Err(_), Err(_), Err(_)) => None,
            (Ok(w), Ok(p), Ok(q), Ok(e)) => {
                if w.len() != p.len() || w.len() != q.len() || w.len() != e.len() {
                    return Some(format!("lengths differ: query_with_path {} query_only_path {} query {} js_path_process {}", w.len(), p.len(), q.len(), e.len()));
                }
                for i in 0..w.len() {
                    if w[i].1 != p[i] {
                        return Some(format!("position {}: query_with_path reports {} but query_only_path reports {}", i, w[i].1, p[i]));
                    }
                    if w[i].0 != q[i].0 || w[i].2 != q[i].1 {
                        return Some(format!("position {}: query_with_path returns the node at {} ({}) but query returns the node at {} ({})", i, w[i].0, w[i].2, q[i].0, q[i].1));
                    }
                    // the path at position i must be a path to the node at position i. Only the index
                    // steps are compared here: how a member name is spelled in a path is C09's subject
                    // (and has two known upstream defects there); an index has one spelling.
                    if w[i].0 != "FOREIGN" {
                        let want = loc_index_steps(&w[i].0);
                        if let Some(got) = path_index_steps(&w[i].1) {
                            if got != want {
                                return Some(format!("position {}: query_with_path returns the node at {} but reports the path {} (index steps {:?}, the node's are {:?})", i, w[i].0, w[i].1, got, want));
                            }
                        }
                    }
                    if w[i] != e[i] {
                        return Some(format!("position {}: parsing at the call gives {:?} but the query parsed once gives {:?}", i, w[i], e[i]));
                    }
                }
                None
            }
            _ => Some(format!(
                "Ok/Err differ: query_with_path {} query_only_path {} query {} parse+js_path_process {}",
                if self.w.is_ok() { "Ok" } else { "Err" },
                if self.p.is_ok() { "Ok" } else { "Err" },
                if self.q.is_ok() { "Ok" } else { "Err" },
                if self.e.is_ok() { "Ok" } else { "Err" }
            )),
        }
    }
}

#[cfg(test)]
mod tests {
    use super::*;
    #[test]
    fn index_steps() {
        assert_eq!(path_index_steps("$"), Some(vec![]));
        assert_eq!(path_index_steps("$['a'][10][0]['b']"), Some(vec!["10".to_string(), "0".to_string()]));
        assert_eq!(path_index_steps("$['[5]'][1]"), Some(vec!["1".to_string()]));
        assert_eq!(path_index_steps("$['it\\'s'][2]"), Some(vec!["2".to_string()]));
        assert_eq!(path_index_steps("$['a\\\\'][3]"), Some(vec!["3".to_string()]));
        assert_eq!(path_index_steps("$['\"a\"'][3]"), Some(vec!["3".to_string()]));
        assert_eq!(path_index_steps("$.a[3]"), None);
        assert_eq!(path_index_steps("$['a"), None);
        assert_eq!(loc_index_steps("/n:6162/i:3/i:10500"), vec!["3".to_string(), "10500".to_string()]);
        assert_eq!(loc_index_steps("/"), Vec::<String>::new());
    }
}
