//! Known findings (read-only at run time), evidence files, replay files, exit conventions.
use serde::{Deserialize, Serialize};
use serde_json::{json, Value};
use std::path::{Path, PathBuf};

pub fn verif_dir() -> PathBuf {
    std::env::var("VERIF_DIR").map(PathBuf::from).unwrap_or_else(|_| PathBuf::from("/verif"))
}

#[derive(Clone, Debug, Serialize, Deserialize)]
pub struct Finding {
    pub property: String,
    pub key: String,
    /// "open" suppresses a matching violation (KNOWN-FINDING line, exit 0); "fixed" suppresses nothing.
    pub status: String,
    /// classifier name + parameters; interpreted by the property's checker
    pub predicate: Value,
    #[serde(default)]
    pub commit: Option<String>,
    #[serde(default)]
    pub line: Option<String>,
    #[serde(default)]
    pub witness: Value,
    #[serde(default)]
    pub description: String,
}

pub fn load_findings(property: &str) -> Vec<Finding> {
    let p = verif_dir().join("known_findings.json");
    let Ok(text) = std::fs::read_to_string(&p) else { return vec![] };
    let v: Value = match crate::report::from_json(&text) {
        Ok(v) => v,
        Err(e) => {
            eprintln!("harness error: known_findings.json does not parse: {}", e);
            std::process::exit(2);
        }
    };
    let mut out = vec![];
    if let Some(arr) = v.get("findings").and_then(|f| f.as_array()) {
        for f in arr {
            match serde_json::from_value::<Finding>(f.clone()) {
                Ok(f) if f.property == property => out.push(f),
                Ok(_) => {}
                Err(e) => {
                    eprintln!("harness error: bad finding entry: {}", e);
                    std::process::exit(2);
                }
            }
        }
    }
    out
}

pub fn write_json(path: &Path, v: &Value) {
    if let Some(dir) = path.parent() {
        let _ = std::fs::create_dir_all(dir);
    }
    let tmp = path.with_extension("tmp");
    std::fs::write(&tmp, serde_json::to_string_pretty(v).unwrap()).expect("write json");
    std::fs::rename(&tmp, path).expect("rename json");
}

pub struct Evidence {
    pub property: String,
    pub tier: String,
    pub seed: u64,
    pub wall_s: f64,
    pub violations: usize,
    pub coverage: Value,
    pub assumptions: Vec<String>,
}

pub fn write_evidence(e: &Evidence) {
    let v = json!({
        "property_id": e.property,
        "tier": e.tier,
        "seed": e.seed,
        "level": "exploration",
        "coverage": e.coverage,
        "assumptions": e.assumptions,
        "wall_s": (e.wall_s * 1000.0).round() / 1000.0,
        "violations": e.violations,
    });
    let dir = std::env::var("VERIF_EVIDENCE_DIR").map(PathBuf::from).unwrap_or_else(|_| verif_dir().join("evidence"));
    write_json(&dir.join(format!("{}.json", e.property)), &v);
}

/// Writes the replay file and returns its path.
pub fn write_replay(property: &str, tag: &str, body: &Value) -> PathBuf {
    let p = verif_dir().join("replays").join(format!("{}-{}.json", property, tag));
    write_json(&p, body);
    p
}

pub fn print_violation(property: &str, replay: &Path) {
    println!("VIOLATION property={} replay={}", property, replay.display());
}

/// serde_json with its recursion limit off: documents nested beyond 128 levels travel between the
/// driver and its child processes (and into replay files).
pub fn from_json<T: serde::de::DeserializeOwned>(text: &str) -> Result<T, serde_json::Error> {
    let mut de = serde_json::Deserializer::from_str(text);
    de.disable_recursion_limit();
    let v = T::deserialize(&mut de)?;
    de.end()?;
    Ok(v)
}
