mod allocseam;
mod c09;
mod c12;
mod c15;
mod gen;
mod npath;
mod obs;
mod report;
mod rng;
mod sched;
mod simdoc;

use serde_json::Value;

#[global_allocator]
static GLOBAL: allocseam::SimAlloc = allocseam::SimAlloc;

fn arg_val(args: &[String], name: &str) -> Option<String> {
    args.iter().position(|a| a == name).and_then(|i| args.get(i + 1).cloned())
}

fn main() {
    let args: Vec<String> = std::env::args().collect();
    let mode = args.get(1).map(|s| s.as_str()).unwrap_or("");
    let seed: u64 = std::env::var("VERIF_SEED").ok().and_then(|s| s.trim().parse().ok()).unwrap_or(1);
    let workers: usize = std::env::var("VERIF_WORKERS").ok().and_then(|s| s.parse().ok()).unwrap_or(16);
    let code = match mode {
        "drive" => {
            let id = args.get(2).cloned().unwrap_or_default();
            let tier = arg_val(&args, "--tier").or_else(|| std::env::var("VERIF_TIER").ok()).unwrap_or_else(|| "quick".into());
            match id.as_str() {
                "C09" => c09::drive(&tier, seed, workers),
                "C12" => c12::drive(&tier, seed, workers),
                "C15" => c15::drive(&tier, seed, workers),
                _ => {
                    eprintln!("harness error: unknown property {}", id);
                    2
                }
            }
        }
        "run" => c12::run_main(args.iter().any(|a| a == "--full")),
        "cold" => c12::cold_main(),
        "c12-sweep" => c12::sweep_main(),
        "c12-plan" => c12::plan_main(args.get(2).and_then(|s| s.parse().ok()).unwrap_or(0), args.get(3).map(|s| s.as_str()).unwrap_or("quick"), seed),
        "c09-chunk" => c09::chunk_main(),
        "c09-exec" => c09::exec_main(),
        "replay" => {
            let path = args.get(2).cloned().unwrap_or_default();
            let text = match std::fs::read_to_string(&path) {
                Ok(t) => t,
                Err(e) => {
                    eprintln!("harness error: cannot read {}: {}", path, e);
                    std::process::exit(2);
                }
            };
            let body: Value = match crate::report::from_json(&text) {
                Ok(v) => v,
                Err(e) => {
                    eprintln!("harness error: {} is not JSON: {}", path, e);
                    std::process::exit(2);
                }
            };
            std::env::set_var("VERIF_REPLAY_PATH", &path);
            match body["property"].as_str() {
                Some("C09") => c09::replay(&body),
                Some("C12") => c12::replay(&body),
                Some("C15") => c15::replay(&body),
                _ => {
                    eprintln!("harness error: replay file names no known property");
                    2
                }
            }
        }
        _ => {
            eprintln!("usage: sim drive <C09|C12|C15> --tier quick|thorough | sim replay <file>");
            2
        }
    };
    std::process::exit(code);
}
