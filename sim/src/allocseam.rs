//! The allocator seam: the run process' global allocator can be told to refuse blocks of at least a
//! given size while the calling thread is inside a library call (injected allocation failure).
//! Refusing is all it does; what the system under test makes of a null block is what is observed.
use std::alloc::{GlobalAlloc, Layout, System};
use std::cell::Cell;
use std::sync::atomic::{AtomicU64, Ordering};

thread_local! {
    // no destructors: usable from inside the allocator at any moment of a thread's life
    static LIMIT: Cell<usize> = const { Cell::new(0) };
    static ARMED: Cell<usize> = const { Cell::new(0) };
}
pub static REFUSED: AtomicU64 = AtomicU64::new(0);

pub struct SimAlloc;

#[inline]
fn refuse(size: usize) -> bool {
    let l = LIMIT.try_with(|c| c.get()).unwrap_or(0);
    if l != 0 && size >= l {
        REFUSED.fetch_add(1, Ordering::Relaxed);
        true
    } else {
        false
    }
}

unsafe impl GlobalAlloc for SimAlloc {
    unsafe fn alloc(&self, l: Layout) -> *mut u8 {
        if refuse(l.size()) {
            return std::ptr::null_mut();
        }
        System.alloc(l)
    }
    unsafe fn dealloc(&self, p: *mut u8, l: Layout) {
        System.dealloc(p, l)
    }
    unsafe fn alloc_zeroed(&self, l: Layout) -> *mut u8 {
        if refuse(l.size()) {
            return std::ptr::null_mut();
        }
        System.alloc_zeroed(l)
    }
    unsafe fn realloc(&self, p: *mut u8, l: Layout, new_size: usize) -> *mut u8 {
        if new_size > l.size() && refuse(new_size) {
            return std::ptr::null_mut();
        }
        System.realloc(p, l, new_size)
    }
}

/// From now on, library calls made by this thread (see `in_library`) run with blocks of `bytes` or
/// more refused; 0 switches it off.
pub fn arm(bytes: usize) {
    ARMED.with(|c| c.set(bytes));
}

/// Runs one call into the system under test under the armed limit (the harness' own allocations,
/// before and after, are never refused).
pub fn in_library<R>(f: impl FnOnce() -> R) -> R {
    let a = ARMED.try_with(|c| c.get()).unwrap_or(0);
    if a == 0 {
        return f();
    }
    struct Restore(usize);
    impl Drop for Restore {
        fn drop(&mut self) {
            let _ = LIMIT.try_with(|c| c.set(self.0));
        }
    }
    let prev = LIMIT.with(|c| c.replace(a));
    let _g = Restore(prev);
    f()
}

pub fn refused() -> u64 {
    REFUSED.load(Ordering::Relaxed)
}
