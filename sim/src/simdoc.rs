//! SimDoc: a second, differently represented implementation of `Queryable` — the stubbed
//! document store. Every trait accessor is logged and is a schedule point (the seam); the
//! behaviour the trait leaves open is a per-thread personality.
use crate::sched;
use jsonpath_rust::query::queryable::Queryable;
use jsonpath_rust::JsonPath;
use serde_json::{Map, Number, Value};
use std::borrow::Cow;
use std::cell::Cell;
use std::fmt;

/// P1 bit0: `as_f64` answers for integers (as Value does) or not (disjoint accessors).
/// P2 bit1: `Default::default()` is null or a sentinel string.
/// P3 bit2: `Debug` is Value-like or opaque.
#[derive(Clone, Copy, Debug, PartialEq, Eq)]
pub struct Personality(pub u8);

impl Personality {
    pub fn f64_for_ints(self) -> bool {
        self.0 & 1 == 0
    }
    pub fn default_is_null(self) -> bool {
        self.0 & 2 == 0
    }
    pub fn debug_like_value(self) -> bool {
        self.0 & 4 == 0
    }
    /// bit3: one number type — `From<f64>` of an integral value builds the integer form
    pub fn canonical_numbers(self) -> bool {
        self.0 & 8 != 0
    }
    /// bit4: `get` with a bare (unquoted) all-digit key on an array answers with that element — the
    /// JavaScript convention. The engine hands `get` a bare key only for shorthand names, which never
    /// start with a digit, so this is invisible as long as the engine keeps to that.
    pub fn bare_digits_index_arrays(self) -> bool {
        self.0 & 16 != 0
    }
    /// bit5: `From<Vec<Self>>` (required by the trait, not used by the engine) builds a sentinel.
    pub fn from_vec_is_sentinel(self) -> bool {
        self.0 & 32 != 0
    }
    /// bit6: the type does not override `extension_custom` (a provided method): whatever the provided
    /// body answers is the answer. Only used on queries that call none of Value's five functions.
    pub fn keeps_provided_extension(self) -> bool {
        self.0 & 64 != 0
    }
}

thread_local! {
    static PERS: Cell<u8> = const { Cell::new(0) };
    static COUNTS: Cell<[u64; N_ACC]> = const { Cell::new([0; N_ACC]) };
    static TRACE: Cell<u64> = const { Cell::new(0xcbf2_9ce4_8422_2325) };
}

pub const MODE_ROTATE: u8 = 1;
pub const MODE_LISTMAP: u8 = 2;
/// the five extension functions are the type's own, written from their documented meaning (an element
/// is listed if it `==` an element of the list), not delegated to Value's
pub const MODE_OWN_EXT: u8 = 4;
thread_local! {
    static MODE: Cell<u8> = const { Cell::new(0) };
    static ROTATION: Cell<usize> = const { Cell::new(0) };
}
/// Further freedoms of the stubbed store that are not personality bits (they change what is compared).
pub fn set_mode(m: u8) {
    MODE.with(|c| c.set(m));
    ROTATION.with(|c| c.set(0));
}
fn mode() -> u8 {
    MODE.with(|c| c.get())
}
fn index_name(i: usize) -> &'static String {
    static NAMES: std::sync::OnceLock<Vec<String>> = std::sync::OnceLock::new();
    let t = NAMES.get_or_init(|| (0..4096).map(|i| i.to_string()).collect());
    match t.get(i) {
        Some(s) => s,
        None => Box::leak(Box::new(i.to_string())),
    }
}

thread_local! {
    static REENTER_GET: Cell<bool> = const { Cell::new(false) };
    static IN_NESTED: Cell<bool> = const { Cell::new(false) };
}

/// When on, every `get` on this thread first calls back into the library (a nested evaluation on the
/// node itself) and checks what comes back: user code behind the trait is entitled to do that.
pub fn set_reenter_get(on: bool) {
    REENTER_GET.with(|c| c.set(on));
}

struct NestedGuard;
impl Drop for NestedGuard {
    fn drop(&mut self) {
        IN_NESTED.with(|c| c.set(false));
    }
}

pub fn set_personality(p: Personality) {
    PERS.with(|c| c.set(p.0));
}
pub fn personality() -> Personality {
    Personality(PERS.with(|c| c.get()))
}

pub const N_ACC: usize = 16;
pub const ACC_NAMES: [&str; N_ACC] = [
    "get", "as_array", "as_object", "as_str", "as_i64", "as_f64", "as_bool", "null", "extension_custom", "eq", "from_str", "from_bool",
    "from_i64", "from_f64", "from_vec", "default",
];
/// seam sites are numbered after the hook sites of the repository
pub const SEAM_BASE: u32 = 32;

#[inline]
fn seam(acc: usize) {
    COUNTS.with(|c| {
        let mut a = c.get();
        a[acc] += 1;
        c.set(a);
    });
    TRACE.with(|t| t.set((t.get() ^ acc as u64).wrapping_mul(0x0000_0100_0000_01B3)));
    sched::yield_point(SEAM_BASE + acc as u32);
}

pub fn take_counts() -> [u64; N_ACC] {
    COUNTS.with(|c| c.replace([0; N_ACC]))
}
/// Hash of the accessor sequence since the last call (the "trace shape").
pub fn take_trace() -> u64 {
    TRACE.with(|t| t.replace(0xcbf2_9ce4_8422_2325))
}

/// `P` bytes of inline padding: the size and layout of a node are one more thing the trait leaves open.
#[derive(Clone)]
pub enum Sim<const P: usize> {
    Null,
    Bool(bool),
    Int(i64),
    /// integers above i64::MAX (serde_json holds them as u64): no i64 view, an f64 view as in Value
    UInt(u64),
    Float(f64),
    Str(String),
    Arr(Vec<Sim<P>>),
    Obj(Vec<(String, Sim<P>)>),
    /// never constructed; gives the type its size
    #[allow(dead_code)]
    Pad([u8; P]),
}

pub type SimDoc = Sim<0>;
/// the same view in a node type of about half a kilobyte
pub type FatDoc = Sim<480>;

impl<const P: usize> Sim<P> {
    pub fn from_value(v: &Value) -> Sim<P> {
        match v {
            Value::Null => Sim::Null,
            Value::Bool(b) => Sim::Bool(*b),
            Value::Number(n) => {
                if let Some(i) = n.as_i64() {
                    Sim::Int(i)
                } else if let Some(u) = n.as_u64() {
                    Sim::UInt(u)
                } else {
                    Sim::Float(n.as_f64().unwrap_or(0.0))
                }
            }
            Value::String(s) => Sim::Str(s.clone()),
            Value::Array(a) => Sim::Arr(a.iter().map(Sim::from_value).collect()),
            Value::Object(o) => Sim::Obj(o.iter().map(|(k, v)| (k.clone(), Sim::from_value(v))).collect()),
        }
    }
    /// The same view with every non-negative integer held as `UInt` (serde_json's own layout: PosInt /
    /// NegInt), while `From<i64>` keeps building `Int`: the type's `PartialEq` tells the two forms
    /// apart, the accessors do not, and within one document a number has one form only.
    pub fn from_value_posint(v: &Value) -> Sim<P> {
        match v {
            Value::Number(n) => match n.as_u64() {
                Some(u) => Sim::UInt(u),
                None => Sim::from_value(v),
            },
            Value::Array(a) => Sim::Arr(a.iter().map(Sim::from_value_posint).collect()),
            Value::Object(o) => Sim::Obj(o.iter().map(|(k, x)| (k.clone(), Sim::from_value_posint(x))).collect()),
            other => Sim::from_value(other),
        }
    }
    /// The same view with every object's members listed in a pseudo-random order of its own (equal
    /// objects at different positions get different orders): the trait does not promise an order.
    pub fn from_value_shuffled(v: &Value, seed: u64) -> Sim<P> {
        fn build<const P: usize>(v: &Value, rng: &mut crate::rng::Rng) -> Sim<P> {
            match v {
                Value::Array(a) => Sim::Arr(a.iter().map(|x| build(x, rng)).collect()),
                Value::Object(o) => {
                    let mut members: Vec<(String, Sim<P>)> = o.iter().map(|(k, x)| (k.clone(), build(x, rng))).collect();
                    rng.shuffle(&mut members);
                    Sim::Obj(members)
                }
                other => Sim::from_value(other),
            }
        }
        build(v, &mut crate::rng::Rng::new(seed))
    }
    /// Harness-side conversion: neither logged nor a schedule point.
    pub fn to_value(&self) -> Value {
        match self {
            Sim::Null => Value::Null,
            Sim::Bool(b) => Value::Bool(*b),
            Sim::Int(i) => Value::Number(Number::from(*i)),
            Sim::UInt(u) => Value::Number(Number::from(*u)),
            Sim::Float(f) => Number::from_f64(*f).map(Value::Number).unwrap_or(Value::Null),
            Sim::Str(s) => Value::String(s.clone()),
            Sim::Arr(a) => Value::Array(a.iter().map(|x| x.to_value()).collect()),
            Sim::Pad(_) => Value::Null,
            Sim::Obj(o) => {
                let mut m = Map::new();
                for (k, v) in o {
                    m.insert(k.clone(), v.to_value());
                }
                Value::Object(m)
            }
        }
    }
    fn quiet_eq(&self, other: &Sim<P>) -> bool {
        match (self, other) {
            (Sim::Null, Sim::Null) => true,
            (Sim::Bool(a), Sim::Bool(b)) => a == b,
            (Sim::Int(a), Sim::Int(b)) => a == b,
            (Sim::UInt(a), Sim::UInt(b)) => a == b,
            (Sim::Float(a), Sim::Float(b)) => a == b,
            (Sim::Str(a), Sim::Str(b)) => a == b,
            (Sim::Arr(a), Sim::Arr(b)) => a.len() == b.len() && a.iter().zip(b).all(|(x, y)| x.quiet_eq(y)),
            (Sim::Obj(a), Sim::Obj(b)) => {
                a.len() == b.len() && a.iter().all(|(k, v)| b.iter().find(|(k2, _)| k2 == k).map(|(_, v2)| v.quiet_eq(v2)).unwrap_or(false))
            }
            _ => false,
        }
    }
    /// children in iteration order, for the harness' address walk
    pub fn children(&self) -> Vec<(crate::npath::Step, &Sim<P>)> {
        match self {
            Sim::Arr(a) => a.iter().enumerate().map(|(i, x)| (crate::npath::Step::Idx(i), x)).collect(),
            Sim::Obj(o) => o.iter().map(|(k, x)| (crate::npath::Step::Name(k.clone()), x)).collect(),
            _ => vec![],
        }
    }
}

impl<const P: usize> Default for Sim<P> {
    fn default() -> Self {
        seam(15);
        if personality().default_is_null() {
            Sim::Null
        } else {
            Sim::Str("<default>".into())
        }
    }
}

impl<const P: usize> fmt::Debug for Sim<P> {
    fn fmt(&self, f: &mut fmt::Formatter<'_>) -> fmt::Result {
        if personality().debug_like_value() {
            write!(f, "{:?}", self.to_value())
        } else {
            write!(f, "SimDoc#opaque")
        }
    }
}

impl<const P: usize> PartialEq for Sim<P> {
    fn eq(&self, other: &Self) -> bool {
        seam(9);
        self.quiet_eq(other)
    }
}

impl<const P: usize> From<&str> for Sim<P> {
    fn from(s: &str) -> Self {
        seam(10);
        Sim::Str(s.to_string())
    }
}
impl<const P: usize> From<String> for Sim<P> {
    fn from(s: String) -> Self {
        seam(10);
        Sim::Str(s)
    }
}
impl<const P: usize> From<bool> for Sim<P> {
    fn from(b: bool) -> Self {
        seam(11);
        Sim::Bool(b)
    }
}
impl<const P: usize> From<i64> for Sim<P> {
    fn from(i: i64) -> Self {
        seam(12);
        Sim::Int(i)
    }
}
impl<const P: usize> From<f64> for Sim<P> {
    fn from(f: f64) -> Self {
        seam(13);
        if personality().canonical_numbers() && f.is_finite() && f.fract() == 0.0 && f.abs() < 9.0e18 {
            return Sim::Int(f as i64);
        }
        if f.is_finite() {
            Sim::Float(f)
        } else {
            Sim::Null
        }
    }
}
impl<const P: usize> From<Vec<Sim<P>>> for Sim<P> {
    fn from(v: Vec<Sim<P>>) -> Self {
        seam(14);
        if personality().from_vec_is_sentinel() {
            return Sim::Str("<built from a Vec>".to_string());
        }
        Sim::Arr(v)
    }
}

impl<const P: usize> Queryable for Sim<P> {
    fn get(&self, key: &str) -> Option<&Self> {
        seam(0);
        if REENTER_GET.with(|c| c.get()) && !IN_NESTED.with(|c| c.get()) {
            IN_NESTED.with(|c| c.set(true));
            let _g = NestedGuard;
            // a nested evaluation from inside an accessor; its answer is known to the stub
            let kids = self.children();
            // by name when the first member has a plain name (a nested name selector), else by wildcard
            let plain = kids.iter().find_map(|(st, _)| match st {
                // ASCII letters, digits and '_' only: the parser trims Unicode blank space around a
                // shorthand name, so a name like U+2028 is not reachable by shorthand at all
                crate::npath::Step::Name(n) if !n.is_empty() && n.chars().all(|c| c.is_ascii_alphanumeric() || c == '_') && !n.chars().next().unwrap().is_ascii_digit() => Some(n.clone()),
                _ => None,
            });
            let (q, want): (String, Vec<String>) = match plain {
                Some(n) => (format!("$.{}", n), vec![crate::npath::render(&[crate::npath::Step::Name(n)])]),
                None => ("$.*".to_string(), kids.into_iter().map(|(st, _)| crate::npath::render(&[st])).collect()),
            };
            let got = self.query_only_path(&q).unwrap_or_else(|_| vec!["<err>".into()]);
            if got != want {
                panic!("nested evaluation of {} from inside get() gave {:?}, expected {:?}", q, got, want);
            }
        }
        // the documented rule: the implementation strips the enclosing quotes
        let b = key.as_bytes();
        let key = if b.len() >= 2 && ((b[0] == b'\'' && b[b.len() - 1] == b'\'') || (b[0] == b'"' && b[b.len() - 1] == b'"')) {
            &key[1..key.len() - 1]
        } else {
            key
        };
        let quoted = key.len() != b.len();
        match self {
            Sim::Obj(o) => o.iter().find(|(k, _)| k == key).map(|(_, v)| v),
            Sim::Arr(a) if !quoted && personality().bare_digits_index_arrays() && !key.is_empty() && key.bytes().all(|c| c.is_ascii_digit()) => key.parse::<usize>().ok().and_then(|i| a.get(i)),
            _ => None,
        }
    }
    fn as_array(&self) -> Option<&Vec<Self>> {
        seam(1);
        match self {
            Sim::Arr(a) => Some(a),
            _ => None,
        }
    }
    fn as_object(&self) -> Option<Vec<(&String, &Self)>> {
        seam(2);
        match self {
            Sim::Obj(o) if mode() & MODE_ROTATE != 0 && !o.is_empty() => {
                // every enumeration starts at another member (a store with no stable iteration order:
                // each call lists every member exactly once, which is all the trait says)
                let start = ROTATION.with(|r| {
                    let v = r.get();
                    r.set(v.wrapping_add(1));
                    v
                }) % o.len();
                Some(o[start..].iter().chain(o[..start].iter()).map(|(k, v)| (k, v)).collect())
            }
            Sim::Obj(o) => Some(o.iter().map(|(k, v)| (k, v)).collect()),
            // a list that is stored as a table keyed "0", "1", …: it answers as_array and as_object
            Sim::Arr(a) if mode() & MODE_LISTMAP != 0 => Some(a.iter().enumerate().map(|(i, x)| (index_name(i), x)).collect()),
            _ => None,
        }
    }
    fn as_str(&self) -> Option<&str> {
        seam(3);
        match self {
            Sim::Str(s) => Some(s.as_str()),
            _ => None,
        }
    }
    fn as_i64(&self) -> Option<i64> {
        seam(4);
        match self {
            Sim::Int(i) => Some(*i),
            // a document built by `from_value_posint` holds its non-negative integers in this form
            Sim::UInt(u) => i64::try_from(*u).ok(),
            _ => None,
        }
    }
    fn as_f64(&self) -> Option<f64> {
        seam(5);
        match self {
            Sim::Float(f) => Some(*f),
            Sim::Int(i) if personality().f64_for_ints() => Some(*i as f64),
            Sim::UInt(u) if *u <= i64::MAX as u64 => {
                if personality().f64_for_ints() {
                    Some(*u as f64)
                } else {
                    None
                }
            }
            // above i64::MAX: the only numeric view such a number has
            Sim::UInt(u) => Some(*u as f64),
            _ => None,
        }
    }
    fn as_bool(&self) -> Option<bool> {
        seam(6);
        match self {
            Sim::Bool(b) => Some(*b),
            _ => None,
        }
    }
    fn null() -> Self {
        seam(7);
        Sim::Null
    }
    fn extension_custom(name: &str, args: Vec<Cow<Self>>) -> Self {
        seam(8);
        if name == "reenter" {
            // user code that calls back into the library from inside an evaluation: evaluates nested
            // queries on its argument and answers whether their paths look like paths of distinct nodes
            let Some(a) = args.first() else { return Sim::Bool(false) };
            let a: &Sim<P> = a.as_ref();
            let paths = a.query_only_path("$..*").unwrap_or_default();
            let vals = a.query("$..*").map(|v| v.len()).unwrap_or(0);
            let with: Vec<String> = a.query_with_path("$.*").map(|v| v.into_iter().map(|r| r.path()).collect()).unwrap_or_default();
            let mut uniq = paths.clone();
            uniq.sort();
            uniq.dedup();
            let ok = uniq.len() == paths.len() && paths.len() == vals && with.iter().all(|p| p.starts_with("$[")) && paths.iter().all(|p| p.starts_with("$["));
            return Sim::Bool(paths.len() >= 2 && ok);
        }
        if mode() & MODE_OWN_EXT != 0 && ["in", "nin", "none_of", "any_of", "subset_of"].contains(&name) {
            let arr = |x: &Sim<P>| -> Option<Vec<Sim<P>>> {
                match x {
                    Sim::Arr(a) => Some(a.clone()),
                    _ => None,
                }
            };
            return match (name, args.as_slice()) {
                ("in", [l, r]) => match arr(r.as_ref()) {
                    Some(es) => Sim::Bool(es.iter().any(|e| e.quiet_eq(l.as_ref()))),
                    None => Sim::Null,
                },
                ("nin", [l, r]) => match arr(r.as_ref()) {
                    Some(es) => Sim::Bool(!es.iter().any(|e| e.quiet_eq(l.as_ref()))),
                    None => Sim::Null,
                },
                ("none_of", [l, r]) => match (arr(l.as_ref()), arr(r.as_ref())) {
                    (Some(ls), Some(rs)) => Sim::Bool(ls.iter().all(|x| !rs.iter().any(|y| x.quiet_eq(y)))),
                    _ => Sim::Null,
                },
                ("any_of", [l, r]) => match (arr(l.as_ref()), arr(r.as_ref())) {
                    (Some(ls), Some(rs)) => Sim::Bool(ls.iter().any(|x| rs.iter().any(|y| x.quiet_eq(y)))),
                    _ => Sim::Null,
                },
                ("subset_of", [l, r]) => match (arr(l.as_ref()), arr(r.as_ref())) {
                    (Some(ls), Some(rs)) => Sim::Bool(ls.iter().all(|x| rs.iter().any(|y| x.quiet_eq(y)))),
                    _ => Sim::Null,
                },
                _ => Sim::Null,
            };
        }
        if personality().keeps_provided_extension() {
            // what a type that keeps the provided method gets: sampled from a type that does keep it
            let r = <Plain as Queryable>::extension_custom(name, vec![]);
            return Sim::from_value(&r.to_value());
        }
        // the five extension functions are Value's; a faithful view delegates to them
        let vals: Vec<Value> = args.iter().map(|a| a.as_ref().to_value()).collect();
        let cows: Vec<Cow<Value>> = vals.iter().map(Cow::Borrowed).collect();
        let r = <Value as Queryable>::extension_custom(name, cows);
        Sim::from_value(&r)
    }
}

impl<const P: usize> JsonPath for Sim<P> {}

/// A minimal implementation that keeps every provided method of the trait (see personality bit 6).
#[derive(Clone, Debug, PartialEq, Default)]
pub enum Plain {
    #[default]
    Null,
    Bool(bool),
    Int(i64),
    Float(f64),
    Str(String),
    Arr(Vec<Plain>),
}
impl Plain {
    fn to_value(&self) -> Value {
        match self {
            Plain::Null => Value::Null,
            Plain::Bool(b) => Value::Bool(*b),
            Plain::Int(i) => Value::from(*i),
            Plain::Float(f) => Number::from_f64(*f).map(Value::Number).unwrap_or(Value::Null),
            Plain::Str(s) => Value::String(s.clone()),
            Plain::Arr(a) => Value::Array(a.iter().map(|x| x.to_value()).collect()),
        }
    }
}
impl From<&str> for Plain {
    fn from(s: &str) -> Self {
        Plain::Str(s.to_string())
    }
}
impl From<String> for Plain {
    fn from(s: String) -> Self {
        Plain::Str(s)
    }
}
impl From<bool> for Plain {
    fn from(b: bool) -> Self {
        Plain::Bool(b)
    }
}
impl From<i64> for Plain {
    fn from(i: i64) -> Self {
        Plain::Int(i)
    }
}
impl From<f64> for Plain {
    fn from(f: f64) -> Self {
        Plain::Float(f)
    }
}
impl From<Vec<Plain>> for Plain {
    fn from(v: Vec<Plain>) -> Self {
        Plain::Arr(v)
    }
}
impl Queryable for Plain {
    fn get(&self, _key: &str) -> Option<&Self> {
        None
    }
    fn as_array(&self) -> Option<&Vec<Self>> {
        match self {
            Plain::Arr(a) => Some(a),
            _ => None,
        }
    }
    fn as_object(&self) -> Option<Vec<(&String, &Self)>> {
        None
    }
    fn as_str(&self) -> Option<&str> {
        match self {
            Plain::Str(s) => Some(s),
            _ => None,
        }
    }
    fn as_i64(&self) -> Option<i64> {
        match self {
            Plain::Int(i) => Some(*i),
            _ => None,
        }
    }
    fn as_f64(&self) -> Option<f64> {
        match self {
            Plain::Float(f) => Some(*f),
            Plain::Int(i) => Some(*i as f64),
            _ => None,
        }
    }
    fn as_bool(&self) -> Option<bool> {
        match self {
            Plain::Bool(b) => Some(*b),
            _ => None,
        }
    }
    fn null() -> Self {
        Plain::Null
    }
}

// ---------------------------------------------------------------------------------------------
// ShareDoc: a third faithful view, with structural sharing. Equal subtrees are one allocation
// (hash-consing, as resolved YAML aliases or interned configuration trees would be), and the
// members null / true / false of an object are flyweights: one value per thread handed out at every
// position. The trait never says where a `Self` lives, so a node's address is not its position.

use std::sync::Arc as Rc;

pub enum SNode {
    Null,
    Bool(bool),
    Int(i64),
    UInt(u64),
    Float(f64),
    /// string values are slices of pooled buffers: `buf[start..start + len]`. A string that occurs inside
    /// a longer string of the same document (as a prefix by preference) shares that string's buffer, as
    /// a rope, an arena or a zero-copy parser over one input text would; so two different strings may
    /// start at the same address, and equal strings may live at different ones
    Str(Rc<str>, usize, usize),
    Arr(Vec<ShareDoc>),
    /// member names are interned: equal names in different objects are one `String`
    Obj(Vec<(Rc<String>, ShareDoc)>),
}

#[derive(Clone)]
pub struct ShareDoc(pub Rc<SNode>);

thread_local! {
    static FLY: [&'static ShareDoc; 3] = [
        Box::leak(Box::new(ShareDoc(Rc::new(SNode::Null)))),
        Box::leak(Box::new(ShareDoc(Rc::new(SNode::Bool(true))))),
        Box::leak(Box::new(ShareDoc(Rc::new(SNode::Bool(false))))),
    ];
}

fn flyweight(v: &ShareDoc) -> Option<&'static ShareDoc> {
    let i = match &*v.0 {
        SNode::Null => 0,
        SNode::Bool(true) => 1,
        SNode::Bool(false) => 2,
        _ => return None,
    };
    Some(FLY.with(|f| f[i]))
}

impl ShareDoc {
    pub fn from_value(v: &Value) -> ShareDoc {
        // the string pool: longest strings first, each later string placed inside an earlier buffer when
        // it occurs there (at offset 0 by preference); the search is bounded to the first 64 buffers
        fn collect<'a>(v: &'a Value, out: &mut Vec<&'a str>) {
            match v {
                Value::String(s) => out.push(s.as_str()),
                Value::Array(a) => a.iter().for_each(|x| collect(x, out)),
                Value::Object(o) => o.values().for_each(|x| collect(x, out)),
                _ => {}
            }
        }
        let mut all = vec![];
        collect(v, &mut all);
        all.sort_by(|a, b| b.len().cmp(&a.len()).then(a.cmp(b)));
        all.dedup();
        let mut bufs: Vec<Rc<str>> = vec![];
        let mut strs: std::collections::HashMap<String, (Rc<str>, usize)> = std::collections::HashMap::new();
        for s in all {
            let near = &bufs[..bufs.len().min(64)];
            let place = if s.is_empty() || s.len() > 4096 {
                None
            } else {
                near.iter().find(|b| b.starts_with(s)).map(|b| (b.clone(), 0)).or_else(|| near.iter().find_map(|b| b.find(s).map(|at| (b.clone(), at))))
            };
            let place = place.unwrap_or_else(|| {
                let b: Rc<str> = Rc::from(s);
                bufs.push(b.clone());
                (b, 0)
            });
            strs.insert(s.to_string(), place);
        }
        fn build(v: &Value, pool: &mut std::collections::HashMap<String, Rc<SNode>>, names: &mut std::collections::HashMap<String, Rc<String>>, strs: &std::collections::HashMap<String, (Rc<str>, usize)>) -> ShareDoc {
            let key = v.to_string();
            if let Some(n) = pool.get(&key) {
                return ShareDoc(n.clone());
            }
            let node = match v {
                Value::Null => SNode::Null,
                Value::Bool(b) => SNode::Bool(*b),
                Value::Number(n) => match (n.as_i64(), n.as_u64()) {
                    (Some(i), _) => SNode::Int(i),
                    (None, Some(u)) => SNode::UInt(u),
                    (None, None) => SNode::Float(n.as_f64().unwrap_or(0.0)),
                },
                Value::String(s) => {
                    let (b, at) = strs.get(s.as_str()).cloned().unwrap_or_else(|| (Rc::from(s.as_str()), 0));
                    SNode::Str(b, at, s.len())
                }
                Value::Array(a) => SNode::Arr(a.iter().map(|x| build(x, pool, names, strs)).collect()),
                Value::Object(o) => SNode::Obj(o.iter().map(|(k, x)| (names.entry(k.clone()).or_insert_with(|| Rc::new(k.clone())).clone(), build(x, pool, names, strs))).collect()),
            };
            let rc = Rc::new(node);
            // integers and floats that print alike must not be merged (1 and 1.0 print differently in
            // serde_json, so the text key is safe)
            pool.insert(key, rc.clone());
            ShareDoc(rc)
        }
        build(v, &mut std::collections::HashMap::new(), &mut std::collections::HashMap::new(), &strs)
    }
    pub fn to_value(&self) -> Value {
        match &*self.0 {
            SNode::Null => Value::Null,
            SNode::Bool(b) => Value::Bool(*b),
            SNode::Int(i) => Value::Number(Number::from(*i)),
            SNode::UInt(u) => Value::Number(Number::from(*u)),
            SNode::Float(f) => Number::from_f64(*f).map(Value::Number).unwrap_or(Value::Null),
            SNode::Str(b, at, len) => Value::String(b[*at..*at + *len].to_string()),
            SNode::Arr(a) => Value::Array(a.iter().map(|x| x.to_value()).collect()),
            SNode::Obj(o) => {
                let mut m = Map::new();
                for (k, v) in o {
                    m.insert((**k).clone(), v.to_value());
                }
                Value::Object(m)
            }
        }
    }
    /// every address a returned reference may legitimately have: wrappers inside the tree and the flyweights
    pub fn addresses(&self, out: &mut std::collections::HashSet<usize>) {
        out.insert(self as *const ShareDoc as usize);
        FLY.with(|f| {
            for x in f.iter() {
                out.insert(*x as *const ShareDoc as usize);
            }
        });
        match &*self.0 {
            SNode::Arr(a) => a.iter().for_each(|x| x.addresses(out)),
            SNode::Obj(o) => o.iter().for_each(|(_, x)| x.addresses(out)),
            _ => {}
        }
    }
}

impl Default for ShareDoc {
    fn default() -> Self {
        if personality().default_is_null() {
            ShareDoc(Rc::new(SNode::Null))
        } else {
            ShareDoc::from("<default>")
        }
    }
}
impl fmt::Debug for ShareDoc {
    fn fmt(&self, f: &mut fmt::Formatter<'_>) -> fmt::Result {
        if personality().debug_like_value() {
            write!(f, "{:?}", self.to_value())
        } else {
            write!(f, "ShareDoc#opaque")
        }
    }
}
impl PartialEq for ShareDoc {
    fn eq(&self, other: &Self) -> bool {
        // the same relation as Value's, computed structurally (pointer equality is only a shortcut)
        Rc::ptr_eq(&self.0, &other.0) || self.to_value() == other.to_value()
    }
}
impl From<&str> for ShareDoc {
    fn from(s: &str) -> Self {
        ShareDoc(Rc::new(SNode::Str(Rc::from(s), 0, s.len())))
    }
}
impl From<String> for ShareDoc {
    fn from(s: String) -> Self {
        ShareDoc::from(s.as_str())
    }
}
impl From<bool> for ShareDoc {
    fn from(b: bool) -> Self {
        ShareDoc(Rc::new(SNode::Bool(b)))
    }
}
impl From<i64> for ShareDoc {
    fn from(i: i64) -> Self {
        ShareDoc(Rc::new(SNode::Int(i)))
    }
}
impl From<f64> for ShareDoc {
    fn from(f: f64) -> Self {
        ShareDoc(Rc::new(if f.is_finite() { SNode::Float(f) } else { SNode::Null }))
    }
}
impl From<Vec<ShareDoc>> for ShareDoc {
    fn from(v: Vec<ShareDoc>) -> Self {
        ShareDoc(Rc::new(SNode::Arr(v)))
    }
}

impl Queryable for ShareDoc {
    fn get(&self, key: &str) -> Option<&Self> {
        let b = key.as_bytes();
        let key = if b.len() >= 2 && ((b[0] == b'\'' && b[b.len() - 1] == b'\'') || (b[0] == b'"' && b[b.len() - 1] == b'"')) { &key[1..key.len() - 1] } else { key };
        match &*self.0 {
            SNode::Obj(o) => o.iter().find(|(k, _)| k.as_str() == key).map(|(_, v)| flyweight(v).unwrap_or(v)),
            _ => None,
        }
    }
    fn as_array(&self) -> Option<&Vec<Self>> {
        match &*self.0 {
            SNode::Arr(a) => Some(a),
            _ => None,
        }
    }
    fn as_object(&self) -> Option<Vec<(&String, &Self)>> {
        match &*self.0 {
            SNode::Obj(o) => Some(o.iter().map(|(k, v)| (&**k, flyweight(v).unwrap_or(v))).collect()),
            _ => None,
        }
    }
    fn as_str(&self) -> Option<&str> {
        match &*self.0 {
            SNode::Str(b, at, len) => Some(&b[*at..*at + *len]),
            _ => None,
        }
    }
    fn as_i64(&self) -> Option<i64> {
        match &*self.0 {
            SNode::Int(i) => Some(*i),
            _ => None,
        }
    }
    fn as_f64(&self) -> Option<f64> {
        match &*self.0 {
            SNode::Float(f) => Some(*f),
            SNode::Int(i) if personality().f64_for_ints() => Some(*i as f64),
            SNode::UInt(u) => Some(*u as f64),
            _ => None,
        }
    }
    fn as_bool(&self) -> Option<bool> {
        match &*self.0 {
            SNode::Bool(b) => Some(*b),
            _ => None,
        }
    }
    fn null() -> Self {
        ShareDoc(Rc::new(SNode::Null))
    }
    fn extension_custom(name: &str, args: Vec<Cow<Self>>) -> Self {
        let vals: Vec<Value> = args.iter().map(|a| a.as_ref().to_value()).collect();
        let cows: Vec<Cow<Value>> = vals.iter().map(Cow::Borrowed).collect();
        ShareDoc::from_value(&<Value as Queryable>::extension_custom(name, cows))
    }
}

impl JsonPath for ShareDoc {}
