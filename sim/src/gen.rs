//! Seeded generators: documents, member names, values, queries, regex patterns.
//! Everything is a pure function of the Rng handed in.
use crate::rng::Rng;
use serde_json::{Map, Number, Value};

/// Plain names: no quote, backslash or control characters (C15 and most of C12).
pub const NAMES_PLAIN: &[&str] = &[
    "a", "b", "c", "d", "x", "list", "elems", "k1", "_u", "é", "0", "1", "a b", "key", "a/b", "~",
];

/// Adversarial names for the path round trip (C09).
pub const NAMES_ADV: &[&str] = &[
    "a", "b", "0", "1", "-1", "00", "", " ", "/", "~", "~0", "~1", "a/b", "a~1b", "'", "''", "'a'",
    "a'b", "\"", "\"a\"", "\\", "\\\\", "x\\y", "\n", "\t", "\u{1}", "\u{b}", "\u{1f}", "\u{7f}",
    "é", "\u{1F600}", "a.b", "[0]", "$", "@", "*", "/a", "a/", "~a", "01", "2",
    // invisible, private-use, non-BMP and line-separator characters (none is escaped in a Normalized Path)
    "\u{F0000}", "\u{F000}0", "\u{E0041}", "\u{200B}", "a\u{301}", "\u{FEFF}", "\u{10FFFF}", "\u{1D173}", "\u{E000}", "\u{2028}", "\u{85}", "\u{FFFD}",
    "A", "a ", "Ab",
    // the controls that have a short escape (\b \t \n \f \r), alone and inside a name
    "\r", "\u{c}", "\u{8}", "a\r\nb", "x\u{c}y", "\u{b}\u{c}",
    // a non-ASCII character before an apostrophe; brackets next to each other; form-style names
    "Côte d'Ivoire", "José's", "é'", "日本's", "user[address][street]", "m[0][1]", "][", "a][b", "']['",
    // NUL (its only spelling in a Normalized Path is \u0000) and the replacement character as its look-alike
    "\u{0}", "a\u{0}b", "a\u{FFFD}b",
];

/// Names for C15: plain ones plus names that carry quote characters (never both kinds, no backslash),
/// which the generator spells with the other kind of quotes so that no escape is involved.
pub const NAMES_C15: &[&str] = &[
    "a", "b", "c", "d", "x", "list", "elems", "k1", "_u", "é", "0", "1", "a b", "key", "a/b", "~", "'a'", "\"a\"", "it's", "'", "\"", "a'", "'a", "\"b", "''",
    "Côte d'Ivoire", "José's", "user[address][street]", "m[0][1]",
];

// "Aa" and "BB" (and their concatenations) collide under the classic h*31+c string hash
pub const PATTERNS: &[&str] = &["a", "a|b", "x.y", "^a", "b$", "[ab]+", "(", "\\d+", "(?i)A", ".*", "a.*", "ab", "Aa", "BB", "AaBB", "BBAa", "[a", "*a"];

pub const STRINGS: &[&str] = &["", "a", "b", "ab", "xay", "A", "1", "aa", "ba", "a b", " a", "a\tb", "Aa", "BB"];

/// Rare scalars at the edges: large and extreme integers (all within i64), tiny and huge floats,
/// negative zero, a long string, strings with regex metacharacters or non-ASCII text.
pub fn edge_scalar(rng: &mut Rng) -> Value {
    match rng.below(12) {
        0 => Value::from(2147483648i64),
        1 => Value::from(9007199254740993i64),
        2 => Value::from(i64::MAX),
        3 => Value::from(i64::MIN),
        4 => Value::from(-2147483649i64),
        5 => Value::Number(Number::from_f64(1e300).unwrap()),
        6 => Value::Number(Number::from_f64(-0.0).unwrap()),
        7 => Value::Number(Number::from_f64(5e-324).unwrap()),
        8 => Value::String("x".repeat(300)),
        9 => Value::String("a.b*c(d)[e]^$|\\".to_string()),
        10 => {
            if rng.chance(1, 2) {
                Value::String("ж日本\u{1F600}é".to_string())
            } else {
                // integers above i64::MAX (held as u64 by serde_json)
                Value::from(*rng.pick(&[18446744073709551615u64, 9223372036854775808u64, 9223372036854775807u64]))
            }
        }
        _ => Value::Number(Number::from_f64(0.1 + 0.2).unwrap()),
    }
}

pub fn scalar(rng: &mut Rng) -> Value {
    if rng.chance(1, 40) {
        return edge_scalar(rng);
    }
    match rng.weighted(&[2, 2, 2, 8, 4, 8]) {
        0 => Value::Null,
        1 => Value::Bool(true),
        2 => Value::Bool(false),
        3 => {
            let ints: [i64; 7] = [0, 1, -1, 2, 3, 100, 10];
            Value::Number(Number::from(*rng.pick(&ints)))
        }
        4 => {
            let fl: [f64; 5] = [1.0, 1.5, 100.0, -0.5, 2.5];
            Value::Number(Number::from_f64(*rng.pick(&fl)).unwrap())
        }
        _ => Value::String(rng.pick(STRINGS).to_string()),
    }
}

pub struct DocParams<'a> {
    pub max_nodes: usize,
    pub max_depth: usize,
    pub names: &'a [&'a str],
    pub max_width: usize,
    pub long_arrays: bool,
    /// one member name in six is mixed from two or three character classes
    pub mixed_names: bool,
}

fn gen_node(rng: &mut Rng, p: &DocParams, depth: usize, budget: &mut usize) -> Value {
    if *budget > 0 {
        *budget -= 1;
    }
    let container_ok = depth < p.max_depth && *budget >= 2;
    let kind = if container_ok {
        rng.weighted(&[5, 4, 4, 2])
    } else {
        rng.weighted(&[8, 1, 1, 0])
    };
    if p.long_arrays && depth <= 2 && rng.chance(1, 25) {
        // a long array of scalars: sizes around the powers of two that bounded tables like
        let n = *rng.pick(&[9usize, 12, 17, 33, 40]);
        return Value::Array((0..n).map(|i| if rng.chance(1, 3) { Value::from(i as i64) } else { scalar(rng) }).collect());
    }
    match kind {
        0 => scalar(rng),
        1 => {
            // array
            let n = if container_ok { rng.below(p.max_width + 1) } else { 0 };
            let mut v = Vec::new();
            for _ in 0..n {
                if *budget == 0 {
                    break;
                }
                v.push(gen_node(rng, p, depth + 1, budget));
            }
            Value::Array(v)
        }
        2 => {
            let n = if container_ok { rng.below(p.max_width + 1) } else { 0 };
            let mut m = Map::new();
            for _ in 0..n {
                if *budget == 0 {
                    break;
                }
                let name = if p.mixed_names && rng.chance(1, 6) { mixed_name(rng) } else { rng.pick(p.names).to_string() };
                if m.contains_key(&name) {
                    continue;
                }
                let v = gen_node(rng, p, depth + 1, budget);
                m.insert(name, v);
            }
            Value::Object(m)
        }
        _ => {
            // array of records sharing member names: what filters are selective on
            let n = 2 + rng.below(3);
            let fields: Vec<&str> = (0..(1 + rng.below(3))).map(|_| *rng.pick(p.names)).collect();
            let mut v = Vec::new();
            for _ in 0..n {
                if *budget < 2 {
                    break;
                }
                *budget -= 1;
                let mut m = Map::new();
                for f in &fields {
                    if rng.chance(3, 4) && *budget > 0 {
                        *budget -= 1;
                        m.insert(f.to_string(), scalar(rng));
                    }
                }
                v.push(Value::Object(m));
            }
            Value::Array(v)
        }
    }
}

pub fn gen_doc(rng: &mut Rng, p: &DocParams) -> Value {
    let mut budget = p.max_nodes;
    // the root is a container most of the time
    let mut v = gen_node(rng, p, 0, &mut budget);
    let mut tries = 0;
    while !(v.is_array() || v.is_object()) && tries < 3 && rng.chance(9, 10) {
        budget = p.max_nodes;
        v = gen_node(rng, p, 0, &mut budget);
        tries += 1;
    }
    v
}

/// Number of nodes of a value (the value itself included).
pub fn node_count(v: &Value) -> usize {
    match v {
        Value::Array(a) => 1 + a.iter().map(node_count).sum::<usize>(),
        Value::Object(o) => 1 + o.values().map(node_count).sum::<usize>(),
        _ => 1,
    }
}

/// All member names occurring anywhere in the value.
pub fn names_of(v: &Value, out: &mut Vec<String>) {
    match v {
        Value::Array(a) => a.iter().for_each(|x| names_of(x, out)),
        Value::Object(o) => {
            for (k, x) in o {
                if !out.contains(k) {
                    out.push(k.clone());
                }
                names_of(x, out);
            }
        }
        _ => {}
    }
}

/// A copy of `v` with exactly one leaf changed (for near-duplicate documents).
pub fn perturb_leaf(rng: &mut Rng, v: &Value) -> Value {
    fn leaves(v: &Value, path: &mut Vec<usize>, out: &mut Vec<Vec<usize>>) {
        match v {
            Value::Array(a) if !a.is_empty() => {
                for (i, x) in a.iter().enumerate() {
                    path.push(i);
                    leaves(x, path, out);
                    path.pop();
                }
            }
            Value::Object(o) if !o.is_empty() => {
                for (i, (_, x)) in o.iter().enumerate() {
                    path.push(i);
                    leaves(x, path, out);
                    path.pop();
                }
            }
            _ => out.push(path.clone()),
        }
    }
    fn set(v: &mut Value, path: &[usize], new: Value) {
        if path.is_empty() {
            *v = new;
            return;
        }
        match v {
            Value::Array(a) => set(&mut a[path[0]], &path[1..], new),
            Value::Object(o) => set(o.iter_mut().nth(path[0]).unwrap().1, &path[1..], new),
            _ => {}
        }
    }
    let mut all = vec![];
    leaves(v, &mut vec![], &mut all);
    let mut out = v.clone();
    if all.is_empty() {
        return Value::from(1);
    }
    let p = rng.pick(&all).clone();
    let mut new = scalar(rng);
    let mut cur = v;
    for i in &p {
        cur = match cur {
            Value::Array(a) => &a[*i],
            Value::Object(o) => o.iter().nth(*i).unwrap().1,
            _ => cur,
        };
    }
    let mut guard = 0;
    while &new == cur && guard < 20 {
        new = scalar(rng);
        guard += 1;
    }
    if &new == cur {
        new = Value::String("zz".into());
    }
    set(&mut out, &p, new);
    out
}

// ---------------------------------------------------------------------------------------------
// query strings

pub fn shorthand_ok(name: &str) -> bool {
    let mut cs = name.chars();
    match cs.next() {
        None => return false,
        Some(c) => {
            if !(c.is_ascii_alphabetic() || c == '_' || (c as u32) >= 0x80) {
                return false;
            }
        }
    }
    cs.all(|c| c.is_ascii_alphanumeric() || c == '_' || (c as u32) >= 0x80)
}

fn esc_common(c: char, out: &mut String) -> bool {
    match c {
        '\\' => out.push_str("\\\\"),
        '\u{8}' => out.push_str("\\b"),
        '\u{c}' => out.push_str("\\f"),
        '\n' => out.push_str("\\n"),
        '\r' => out.push_str("\\r"),
        '\t' => out.push_str("\\t"),
        c if (c as u32) < 0x20 => out.push_str(&format!("\\u{:04X}", c as u32)),
        _ => return false,
    }
    true
}

/// `'…'` with every character that needs it escaped (upper-case hex: the only form this parser takes).
pub fn quote_single(name: &str) -> String {
    let mut s = String::from("'");
    for c in name.chars() {
        if c == '\'' {
            s.push_str("\\'");
        } else if !esc_common(c, &mut s) {
            s.push(c);
        }
    }
    s.push('\'');
    s
}

pub fn quote_double(name: &str) -> String {
    let mut s = String::from("\"");
    for c in name.chars() {
        if c == '"' {
            s.push_str("\\\"");
        } else if !esc_common(c, &mut s) {
            s.push(c);
        }
    }
    s.push('"');
    s
}

pub struct QGen<'a> {
    pub names: &'a [String],
    /// allow double-quoted selectors, odd blank space, escapes
    pub fancy: bool,
    /// allow regex functions
    pub regex: bool,
    /// allow the five extension functions
    pub ext: bool,
    /// quote names so that no escape is needed (double quotes around a name containing ', single
    /// quotes otherwise): the spellings on which every faithful `get` agrees
    pub safe_quotes: bool,
    /// allow the stub-only function `reenter` (only where both sides of a comparison are the stub)
    pub reenter: bool,
    /// allow functions nobody defines (`frob(@)`): they go to `extension_custom`, whose provided body
    /// and Value's fall-through both answer null
    pub unknown_fn: bool,
}

impl<'a> QGen<'a> {
    fn name(&self, rng: &mut Rng) -> String {
        if self.names.is_empty() || rng.chance(1, 12) {
            rng.pick(&["zz", "a", "b"]).to_string()
        } else {
            rng.pick(self.names).clone()
        }
    }

    fn q1(&self, rng: &mut Rng, n: &str) -> String {
        if self.safe_quotes && n.contains('\'') {
            quote_double(n)
        } else if self.fancy && n.contains('/') && rng.chance(1, 3) {
            // the other legal spelling of a solidus
            quote_single(n).replace('/', "\\/")
        } else {
            quote_single(n)
        }
    }

    fn name_sel(&self, rng: &mut Rng) -> String {
        let n = self.name(rng);
        if self.safe_quotes && rng.chance(1, 20) && n.chars().next().map(|c| c.is_ascii_alphanumeric()).unwrap_or(false) && !n.contains('\'') {
            // the first character written as a \uXXXX escape it does not need (a digit, too)
            let first = n.chars().next().unwrap();
            let rest: String = n.chars().skip(1).collect();
            return format!("'\\u{:04x}{}'", first as u32, rest);
        }
        if self.safe_quotes {
            // one time in three a quote inside the name is written as an escape (\' or \"); the names
            // carry no backslash, so Value's and a faithful get still see the same text
            if (n.contains('\'') || n.contains('"')) && rng.chance(1, 7) {
                // the quote characters written as \u0027 / \u0022
                return format!("'{}'", n.replace('\'', "\\u0027").replace('"', "\\u0022"));
            }
            if (n.contains('\'') || n.contains('"')) && rng.chance(1, 3) {
                if n.contains('\'') {
                    quote_single(&n)
                } else {
                    quote_double(&n)
                }
            } else if n.contains('\'') || (!n.contains('"') && rng.chance(1, 4)) {
                quote_double(&n)
            } else {
                quote_single(&n)
            }
        } else if self.fancy && rng.chance(1, 4) {
            quote_double(&n)
        } else if self.fancy && n.contains('/') && rng.chance(1, 2) {
            // the other legal spelling of a solidus
            quote_single(&n).replace('/', "\\/")
        } else if self.fancy && rng.chance(1, 25) && n.chars().next().map(|c| c.is_ascii_alphanumeric()).unwrap_or(false) {
            // the first character written as a \uXXXX escape it does not need
            let first = n.chars().next().unwrap();
            let rest: String = n.chars().skip(1).collect();
            let q = quote_single(&rest);
            format!("'\\u{:04x}{}", first as u32, &q[1..])
        } else {
            quote_single(&n)
        }
    }

    fn sp(&self, rng: &mut Rng) -> &'static str {
        if self.fancy && rng.chance(1, 10) {
            // RFC 9535 blank space: SP, HTAB, LF, CR
            *rng.pick(&[" ", " ", " ", "\t", "\n", "\r\n", "  "])
        } else {
            ""
        }
    }

    fn int(&self, rng: &mut Rng) -> i64 {
        if rng.chance(1, 60) {
            return *rng.pick(&[9007199254740991i64, -9007199254740991, 2147483648, -2147483649, 4294967296, 65536, 255, 256, 1000]);
        }
        if rng.chance(1, 10) {
            *rng.pick(&[8i64, 9, 16, 33, -9, -17, 39, 12])
        } else {
            rng.range(-4, 5)
        }
    }

    fn slice(&self, rng: &mut Rng) -> String {
        let mut s = String::new();
        if rng.chance(1, 2) {
            s.push_str(&self.int(rng).to_string());
        }
        s.push(':');
        if rng.chance(1, 2) {
            s.push_str(&self.int(rng).to_string());
        }
        if rng.chance(1, 3) {
            s.push(':');
            if rng.chance(4, 5) {
                let st = if rng.chance(1, 30) { *rng.pick(&[2147483648i64, -2147483648, 9007199254740991, -9007199254740991, 100]) } else { *rng.pick(&[1i64, 2, -1, -2, 3, 0]) };
                s.push_str(&st.to_string());
            }
        }
        s
    }

    fn selector(&self, rng: &mut Rng, depth: usize) -> String {
        match rng.weighted(&[6, 5, 3, 3, if depth < 2 { 5 } else { 0 }]) {
            0 => self.name_sel(rng),
            1 => self.int(rng).to_string(),
            2 => "*".to_string(),
            3 => self.slice(rng),
            _ => format!("?{}{}", self.sp(rng), self.logical(rng, depth + 1)),
        }
    }

    fn child(&self, rng: &mut Rng, depth: usize) -> String {
        match rng.weighted(&[6, 2, 8, 3]) {
            0 => {
                let n = self.name(rng);
                if shorthand_ok(&n) {
                    format!(".{}", n)
                } else {
                    format!("[{}]", self.q1(rng, &n))
                }
            }
            1 => ".*".to_string(),
            2 => format!("[{}{}{}]", self.sp(rng), self.selector(rng, depth), self.sp(rng)),
            _ => {
                let n = if rng.chance(1, 12) { 8 + rng.below(6) } else { 2 + rng.below(2) };
                let sels: Vec<String> = (0..n).map(|_| self.selector(rng, depth)).collect();
                format!("[{}]", sels.join(if self.fancy && rng.chance(1, 5) { " , " } else { "," }))
            }
        }
    }

    fn segment(&self, rng: &mut Rng, depth: usize) -> String {
        if rng.chance(1, 6) {
            // descendant
            match rng.weighted(&[4, 2, 4]) {
                0 => {
                    let n = self.name(rng);
                    if shorthand_ok(&n) {
                        format!("..{}", n)
                    } else {
                        format!("..[{}]", self.q1(rng, &n))
                    }
                }
                1 => "..*".to_string(),
                _ => format!("..[{}]", self.selector(rng, depth)),
            }
        } else {
            self.child(rng, depth)
        }
    }

    pub fn segments(&self, rng: &mut Rng, depth: usize, max: usize) -> String {
        let n = rng.below(max + 1);
        (0..n).map(|_| self.segment(rng, depth)).collect()
    }

    fn singular(&self, rng: &mut Rng) -> String {
        let mut s = String::from(if rng.chance(4, 5) { "@" } else { "$" });
        let n = rng.below(3);
        for _ in 0..n {
            if rng.chance(3, 4) {
                let nm = self.name(rng);
                if shorthand_ok(&nm) && rng.chance(3, 4) {
                    s.push('.');
                    s.push_str(&nm);
                } else {
                    s.push_str(&format!("[{}]", self.q1(rng, &nm)));
                }
            } else {
                s.push_str(&format!("[{}]", rng.range(-2, 3)));
            }
        }
        s
    }

    fn literal(&self, rng: &mut Rng) -> String {
        match rng.weighted(&[4, 2, 4, 1, 1, 1]) {
            0 => rng.pick(&["0", "1", "-1", "2", "100", "10", "3"]).to_string(),
            1 => {
                if rng.chance(1, 8) {
                    // integral values written as floats, around 2^53 and 2^31
                    rng.pick(&["9007199254740992.0", "9007199254740993", "9007199254740992", "2147483648.0", "1e300", "-9007199254740992.0", "9.007199254740992e15"]).to_string()
                } else {
                    rng.pick(&["1.0", "1.5", "1e2", "-0.5", "2.5", "-0", "-0.0", "1.0e-2", "1E2", "0.1e1", "1e-0", "100e-2"]).to_string()
                }
            }
            2 => {
                let s = rng.pick(STRINGS);
                if self.fancy && rng.chance(1, 3) {
                    quote_double(s)
                } else {
                    quote_single(s)
                }
            }
            3 => "true".into(),
            4 => "false".into(),
            _ => "null".into(),
        }
    }

    fn rel_query(&self, rng: &mut Rng, depth: usize) -> String {
        let root = if rng.chance(5, 6) { "@" } else { "$" };
        format!("{}{}", root, self.segments(rng, depth + 1, 2))
    }

    fn comparable(&self, rng: &mut Rng, depth: usize) -> String {
        match rng.weighted(&[5, 6, 2]) {
            0 => self.literal(rng),
            1 => self.singular(rng),
            _ => match rng.below(3) {
                0 => format!("length({})", self.singular(rng)),
                1 => format!("count({})", self.rel_query(rng, depth)),
                _ => format!("value({})", self.rel_query(rng, depth)),
            },
        }
    }

    pub fn regex_fn(&self, rng: &mut Rng, name: &str, pat: &str) -> String {
        let arg = if rng.chance(2, 3) { self.singular(rng) } else { "@".to_string() };
        // the pattern is a literal, or comes from the document (root- or current-anchored)
        let p = match rng.weighted(&[6, 2, 1]) {
            0 => quote_single(pat),
            1 => "$.re".to_string(),
            _ => "@.re".to_string(),
        };
        format!("{}({},{}{})", name, arg, self.sp(rng), p)
    }

    /// Queries that reach into the long array `$.long` by jumps and by scans: state keyed by array
    /// index (tables of rendered steps, per-index memos) shows only when an index beyond a block
    /// boundary is reached before, or after, the lower ones.
    pub fn index_jump(&self, rng: &mut Rng) -> String {
        let k = *rng.pick(&[8i64, 9, 11, 16, 17, 20, 32, 33, 39]);
        match rng.below(9) {
            0 => format!("$.long[{}]", k),
            1 => "$.long[-1]".to_string(),
            2 => format!("$.long[{}:]", k),
            3 => "$.long[::-1]".to_string(),
            4 => "$.long[*]".to_string(),
            5 => format!("$.long[?@ > {}]", k),
            6 => format!("$..long[{}]", k),
            7 => format!("$.long[{},{}]", k, rng.range(0, 3)),
            _ => "$..*".to_string(),
        }
    }

    /// Queries whose filter has an atom that depends on the root only: the same for every child, and
    /// different between two documents that differ in one top-level member.
    pub fn root_dependent(&self, rng: &mut Rng) -> String {
        let pre = *rng.pick(&["$.elems", "$.list", "$..*", "$.*", "$.x.b", "$", "$.names"]);
        let atom = match rng.below(if self.reenter { 13 } else { 11 }) {
            11 => "reenter(@)".to_string(),
            12 => "reenter(@) && @ != null".to_string(),
            8 => format!("{}(@, $.names)", rng.pick(&["in", "nin"])),
            9 => format!("{}(@, $.names)", rng.pick(&["any_of", "none_of", "subset_of"])),
            10 => format!("in(@.a, $.names) || $.names[0] == {}", quote_single(*rng.pick(&["d", "a", "aa"]))),
            0 => "$.flag == true".to_string(),
            1 => "$.flag".to_string(),
            2 => format!("@ > $.lim"),
            3 => format!("$.lim < {}", rng.range(0, 3)),
            4 => format!("length($.list) == {}", rng.range(2, 4)),
            5 => format!("match(@, $.re)"),
            6 => format!("search(@, $.re)"),
            _ => format!("count($.list[*]) >= {} && @", rng.range(2, 4)),
        };
        if atom.starts_with("reenter") && rng.chance(3, 4) {
            // over containers, so that the nested evaluation has something to report
            let pre = *rng.pick(&["$.*", "$..*", "$", "$.x", "$.elems"]);
            return format!("{}[?{}]", pre, atom);
        }
        let extra = if rng.chance(1, 3) { format!(" && {}", self.atom(rng, 2)) } else { String::new() };
        format!("{}[?{}{}]", pre, atom, extra)
    }

    fn atom(&self, rng: &mut Rng, depth: usize) -> String {
        let w_regex = if self.regex { 3 } else { 0 };
        let w_ext = if self.ext { 2 } else { 0 };
        if self.unknown_fn && rng.chance(1, 40) {
            let arg = if rng.chance(1, 2) { "@".to_string() } else { self.singular(rng) };
            // names nobody defines today — some invented, some that an implementation might one day
            // add to its own `extension_custom` (a type that keeps the provided method will not have them)
            let name = *rng.pick(&["frob", "custom_fn", "is_even", "starts_with", "ends_with", "contains", "lower", "upper", "len", "size", "keys", "type_of", "abs", "min", "max", "sum", "is_null", "exists", "concat", "not_in", "all_of", "one_of"]);
            let arg = if rng.chance(1, 2) { arg } else { format!("{}, {}", arg, self.literal(rng)) };
            return match rng.below(5) {
                0 => format!("value({}({})) == null", name, arg),
                1 => format!("value({}({})) != false", name, arg),
                2 => format!("{}({})", name, arg),
                3 => format!("!{}({})", name, arg),
                _ => format!("count({}({})) == 1", name, arg),
            };
        }
        match rng.weighted(&[8, 5, w_regex, w_ext, if depth < 3 { 2 } else { 0 }]) {
            0 => {
                let op = rng.pick(&["==", "!=", "<", "<=", ">", ">="]);
                let (s1, s2) = if self.fancy && rng.chance(1, 4) { (" ", " ") } else { ("", "") };
                format!("{}{}{}{}{}", self.comparable(rng, depth), s1, op, s2, self.comparable(rng, depth))
            }
            1 => {
                let not = if rng.chance(1, 4) { "!" } else { "" };
                format!("{}{}", not, self.rel_query(rng, depth))
            }
            2 => {
                let f = if rng.chance(1, 2) { "match" } else { "search" };
                let not = if rng.chance(1, 6) { "!" } else { "" };
                {
                    let pat = *rng.pick(PATTERNS);
                    format!("{}{}", not, self.regex_fn(rng, f, pat))
                }
            }
            3 => {
                let f = rng.pick(&["in", "nin", "none_of", "any_of", "subset_of"]);
                let a = if rng.chance(1, 4) {
                    // a literal argument. Never a float literal with an integral value: whether `2.0`
                    // and `2` are equal members of a list is PartialEq's business, and an
                    // implementation whose From<f64> keeps integral values in integer form is entitled
                    // to its own answer there.
                    match rng.weighted(&[5, 2, 3, 1, 1]) {
                        0 => rng.pick(&["0", "1", "-1", "2", "3", "100", "10", "9007199254740991"]).to_string(),
                        1 => rng.pick(&["1.5", "-0.5", "2.5", "1e-3"]).to_string(),
                        2 => quote_single(*rng.pick(STRINGS)),
                        3 => rng.pick(&["true", "false"]).to_string(),
                        _ => "null".to_string(),
                    }
                } else if rng.chance(1, 2) {
                    "@".to_string()
                } else {
                    self.singular(rng)
                };
                let b = if rng.chance(1, 5) {
                    // a nodelist argument (a query that may select several nodes)
                    match rng.below(4) {
                        0 => format!("$..{}", { let n = self.name(rng); if shorthand_ok(&n) { n } else { "a".to_string() } }),
                        1 => "@.*".to_string(),
                        2 => format!("$.{}[*]", { let n = self.name(rng); if shorthand_ok(&n) { n } else { "list".to_string() } }),
                        _ => self.rel_query(rng, depth),
                    }
                } else if rng.chance(2, 3) {
                    format!("${}", {
                        let n = self.name(rng);
                        if shorthand_ok(&n) {
                            format!(".{}", n)
                        } else {
                            format!("[{}]", self.q1(rng, &n))
                        }
                    })
                } else {
                    self.singular(rng)
                };
                format!("{}({}, {})", f, a, b)
            }
            _ => {
                let not = if rng.chance(1, 3) { "!" } else { "" };
                format!("{}({})", not, self.logical(rng, depth + 1))
            }
        }
    }

    pub fn logical(&self, rng: &mut Rng, depth: usize) -> String {
        let n_or = if depth < 3 && rng.chance(1, 5) { 2 } else { 1 };
        let mut ors = vec![];
        for _ in 0..n_or {
            let n_and = if depth < 3 && rng.chance(1, 5) { 2 } else { 1 };
            let ands: Vec<String> = (0..n_and).map(|_| self.atom(rng, depth)).collect();
            ors.push(ands.join(if self.fancy && rng.chance(1, 3) { " && " } else { "&&" }));
        }
        ors.join(if self.fancy && rng.chance(1, 3) { " || " } else { "||" })
    }

    /// tier 0: one or two plain segments; 1: up to three, filters allowed; 2: up to four
    pub fn query(&self, rng: &mut Rng, tier: usize) -> String {
        let max = [2, 3, 4][tier.min(2)];
        let mut q = String::from("$");
        // now and then a long chain of segments
        let n = if tier == 2 && rng.chance(1, 25) { 8 + rng.below(6) } else { 1 + rng.below(max) };
        for _ in 0..n {
            let depth = if tier == 0 { 2 } else { 0 };
            q.push_str(&self.segment(rng, depth));
        }
        q
    }
}

/// Respell a query: blank space after `[`/`,` and single → double quotes where no escape is involved.
pub fn respell(rng: &mut Rng, q: &str) -> String {
    let mut out = String::new();
    let mut in_s: Option<char> = None;
    let mut prev_bs = false;
    for c in q.chars() {
        match in_s {
            Some(qc) => {
                out.push(c);
                if prev_bs {
                    prev_bs = false;
                } else if c == '\\' {
                    prev_bs = true;
                } else if c == qc {
                    in_s = None;
                }
            }
            None => {
                out.push(c);
                if c == '\'' || c == '"' {
                    in_s = Some(c);
                } else if (c == '[' || c == ',') && rng.chance(1, 2) {
                    out.push(' ');
                }
            }
        }
    }
    out
}

/// Make an (almost certainly) invalid query out of a valid one: drop, duplicate or swap one character.
pub fn invalidate(rng: &mut Rng, q: &str) -> String {
    let cs: Vec<char> = q.chars().collect();
    if cs.len() < 2 {
        return "$[".to_string();
    }
    let i = 1 + rng.below(cs.len() - 1);
    let mut v = cs.clone();
    match rng.below(4) {
        0 => {
            v.remove(i);
        }
        1 => v.insert(i, cs[i]),
        2 => v.insert(i, *rng.pick(&['[', ']', '(', ')', '\'', '?', '&', ' ', '.'])),
        _ => {
            v.truncate(i);
        }
    }
    v.into_iter().collect()
}

/// A near-twin of a query text: a string a sloppy cache key (trimmed, blank-stripped, case-folded,
/// length- or prefix-keyed) would confuse with the original although the two mean different things
/// (or one of them is not a query at all).
pub fn twin(rng: &mut Rng, q: &str) -> String {
    let cs: Vec<char> = q.chars().collect();
    if q.contains("Aa") && rng.chance(1, 2) {
        // same length, same h*31+c hash
        return q.replacen("Aa", "BB", 1);
    }
    if q.contains("BB") && rng.chance(1, 2) {
        return q.replacen("BB", "Aa", 1);
    }
    match rng.below(8) {
        0 => format!(" {}", q),
        1 => format!("{} ", q),
        2 => format!("{}{}", q, rng.pick(&["\t", "\n", "  "])),
        3 => {
            // blank space inside a quoted name or literal changes the meaning
            if let Some(i) = cs.iter().position(|c| *c == '\'' || *c == '"') {
                let mut v = cs.clone();
                v.insert(i + 1, ' ');
                v.into_iter().collect()
            } else {
                format!("{} ", q)
            }
        }
        4 => {
            // case of the first letter after a dot
            let mut v = cs.clone();
            for i in 1..v.len() {
                if v[i - 1] == '.' && v[i].is_ascii_lowercase() {
                    v[i] = v[i].to_ascii_uppercase();
                    break;
                }
            }
            v.into_iter().collect()
        }
        5 => {
            // same length, one digit changed
            let mut v = cs.clone();
            let ds: Vec<usize> = (0..v.len()).filter(|i| v[*i].is_ascii_digit()).collect();
            if ds.is_empty() {
                return format!("{}[0]", q);
            }
            let i = *rng.pick(&ds);
            v[i] = if v[i] == '1' { '0' } else { '1' };
            v.into_iter().collect()
        }
        6 => {
            // same length, same prefix, last letter changed
            let mut v = cs.clone();
            if let Some(i) = (0..v.len()).rev().find(|i| v[*i].is_ascii_lowercase()) {
                v[i] = if v[i] == 'a' { 'b' } else { 'a' };
            }
            v.into_iter().collect()
        }
        _ => {
            // a comparison operator flipped
            if q.contains("==") {
                q.replacen("==", "!=", 1)
            } else if q.contains("<=") {
                q.replacen("<=", ">=", 1)
            } else if q.contains('<') {
                q.replacen('<', ">", 1)
            } else {
                format!("{}.*", q)
            }
        }
    }
}

// ---------------------------------------------------------------------------------------------
// textual query shrinking (for minimised reports): candidates are shorter strings obtained by
// dropping a segment, keeping one selector of a union, keeping one operand of && / ||, or
// removing a pair of parentheses. Candidates need not be valid; the caller keeps one only if
// the same violation persists.

fn scan(q: &[char]) -> Vec<(usize, usize, char)> {
    // (open, close, kind) of every balanced [..] and (..) outside string literals
    let mut out = vec![];
    let mut stack: Vec<(usize, char)> = vec![];
    let mut in_s: Option<char> = None;
    let mut i = 0;
    while i < q.len() {
        let c = q[i];
        match in_s {
            Some(qc) => {
                if c == '\\' {
                    i += 1;
                } else if c == qc {
                    in_s = None;
                }
            }
            None => match c {
                '\'' | '"' => in_s = Some(c),
                '[' | '(' => stack.push((i, c)),
                ']' | ')' => {
                    if let Some((o, k)) = stack.pop() {
                        out.push((o, i, k));
                    }
                }
                _ => {}
            },
        }
        i += 1;
    }
    out
}

/// positions of `sep` at bracket depth 0 inside q[from..to], outside strings
fn split_top(q: &[char], from: usize, to: usize, sep: &str) -> Vec<usize> {
    let sepc: Vec<char> = sep.chars().collect();
    let mut out = vec![];
    let mut depth = 0i32;
    let mut in_s: Option<char> = None;
    let mut i = from;
    while i < to {
        let c = q[i];
        match in_s {
            Some(qc) => {
                if c == '\\' {
                    i += 1;
                } else if c == qc {
                    in_s = None;
                }
            }
            None => match c {
                '\'' | '"' => in_s = Some(c),
                '[' | '(' => depth += 1,
                ']' | ')' => depth -= 1,
                _ => {
                    if depth == 0 && i + sepc.len() <= to && q[i..i + sepc.len()] == sepc[..] {
                        out.push(i);
                        i += sepc.len() - 1;
                    }
                }
            },
        }
        i += 1;
    }
    out
}

pub fn shrink_query(query: &str) -> Vec<String> {
    let q: Vec<char> = query.chars().collect();
    let mut out: Vec<String> = vec![];
    let groups = scan(&q);
    let s = |v: Vec<char>| -> String { v.into_iter().collect() };
    // 1. drop a whole bracketed group that is a segment (preceded by $, ], a name char, or '.')
    for (o, c, k) in &groups {
        if *k == '[' {
            let mut v = q.clone();
            let mut start = *o;
            if start >= 2 && q[start - 1] == '.' && q[start - 2] == '.' {
                start -= 2;
            }
            v.drain(start..=*c);
            out.push(s(v));
        }
    }
    // 2. drop a dotted name / wildcard segment
    let mut i = 1;
    while i < q.len() {
        if q[i] == '.' {
            let mut j = i + 1;
            if j < q.len() && q[j] == '.' {
                j += 1;
            }
            let st = j;
            while j < q.len() && (q[j].is_alphanumeric() || q[j] == '_' || q[j] == '*' || (q[j] as u32) >= 0x80) {
                j += 1;
            }
            if j > st {
                let mut v = q.clone();
                v.drain(i..j);
                out.push(s(v));
            }
            i = j.max(i + 1);
        } else {
            i += 1;
        }
    }
    // 3. unions: keep one selector; filters and parentheses: keep one operand
    for (o, c, k) in &groups {
        let inner_from = *o + 1;
        let inner_to = *c;
        if *k == '[' {
            let commas = split_top(&q, inner_from, inner_to, ",");
            if !commas.is_empty() {
                let mut bounds = vec![inner_from];
                for p in &commas {
                    bounds.push(*p);
                }
                bounds.push(inner_to);
                for w in 0..bounds.len() - 1 {
                    let a = if w == 0 { bounds[w] } else { bounds[w] + 1 };
                    let b = bounds[w + 1];
                    let mut v: Vec<char> = q[..inner_from].to_vec();
                    v.extend_from_slice(&q[a..b]);
                    v.extend_from_slice(&q[inner_to..]);
                    out.push(s(v));
                }
            }
        }
        // logical operands
        let expr_from = if *k == '[' {
            // only filters
            let mut f = inner_from;
            while f < inner_to && q[f] == ' ' {
                f += 1;
            }
            if f < inner_to && q[f] == '?' {
                f + 1
            } else {
                continue;
            }
        } else {
            inner_from
        };
        for sep in ["||", "&&"] {
            let ps = split_top(&q, expr_from, inner_to, sep);
            if ps.is_empty() {
                continue;
            }
            let mut bounds = vec![expr_from];
            for p in &ps {
                bounds.push(*p);
            }
            bounds.push(inner_to);
            for w in 0..bounds.len() - 1 {
                let a = if w == 0 { bounds[w] } else { bounds[w] + 2 };
                let b = bounds[w + 1];
                let mut v: Vec<char> = q[..expr_from].to_vec();
                v.extend_from_slice(&q[a..b]);
                v.extend_from_slice(&q[inner_to..]);
                out.push(s(v));
            }
            break;
        }
        if *k == '(' {
            // remove the parentheses (and a '!' in front of them)
            let mut v: Vec<char> = q[..*o].to_vec();
            if v.last() == Some(&'!') {
                v.pop();
            }
            v.extend_from_slice(&q[inner_from..inner_to]);
            v.extend_from_slice(&q[*c + 1..]);
            out.push(s(v));
        }
    }
    out.retain(|c| c.len() < query.len() && c.starts_with('$'));
    out.sort_by_key(|c| c.len());
    out.dedup();
    out
}

#[cfg(test)]
mod shrink_tests {
    #[test]
    fn shrinks() {
        let c = super::shrink_query("$.a[?@.b==1&&(@.c||$.d)]['x','y']..z");
        assert!(c.contains(&"$[?@.b==1&&(@.c||$.d)]['x','y']..z".to_string()), "{:?}", c);
        assert!(c.contains(&"$.a[?@.b==1]['x','y']..z".to_string()), "{:?}", c);
        assert!(c.contains(&"$.a[?@.b==1&&(@.c||$.d)]['x']..z".to_string()), "{:?}", c);
        assert!(c.contains(&"$.a[?@.b==1&&@.c||$.d]['x','y']..z".to_string()), "{:?}", c);
        assert!(c.contains(&"$.a[?@.b==1&&(@.c)]['x','y']..z".to_string()), "{:?}", c);
        assert!(c.contains(&"$.a[?@.b==1&&(@.c||$.d)]['x','y']".to_string()), "{:?}", c);
    }
}

/// A document content is JSON text, or `#deep:<depth>:<branches>`: a hand-built value nested deeper
/// than serde_json's parser accepts (branches b0.. each a chain of "a" members ending in {"c": n}).
pub fn content_value(text: &str) -> Value {
    if let Some(rest) = text.strip_prefix("#deep:") {
        let mut it = rest.split(':');
        let depth: usize = it.next().and_then(|x| x.parse().ok()).unwrap_or(130);
        let branches: usize = it.next().and_then(|x| x.parse().ok()).unwrap_or(2);
        let mut root = Map::new();
        for b in 0..branches {
            let mut v = serde_json::json!({ "c": b as i64 });
            for _ in 0..depth {
                let mut m = Map::new();
                m.insert("a".to_string(), v);
                v = Value::Object(m);
            }
            root.insert(format!("b{}", b), v);
        }
        root.insert("c".to_string(), Value::from(-1));
        return Value::Object(root);
    }
    if let Some(rest) = text.strip_prefix("#records:") {
        // a multi-megabyte document: N records with two sub-objects each (3N+2 containers)
        let n: usize = rest.parse().unwrap_or(1000);
        let recs: Vec<Value> = (0..n).map(|i| serde_json::json!({"a": {"x": (i % 7) as i64}, "b": {"y": (i % 3) as i64}})).collect();
        return serde_json::json!({"r": recs, "c": 1});
    }
        crate::report::from_json(text).expect("content json")
}

/// The text a content is compared with at the end of a run (its own serialisation).
pub fn content_text(text: &str) -> String {
    content_value(text).to_string()
}

/// A member name mixed from two or three character classes only (a name drawn from all classes at
/// once nearly always holds a backslash or a control and so takes the same code path every time).
pub fn mixed_name(rng: &mut Rng) -> String {
    const CLASSES: &[&[&str]] = &[
        &["a", "b", "key", "x1", "Z"],
        &["é", "ö", "日本", "ж", "\u{1F600}"],
        &["'", "''"],
        &["\""],
        &["\\"],
        &["/", "~", "~0", "~1"],
        &["[", "]", "][", "[0]"],
        &[" ", ".", "$", "@", "*", ",", ":", "?"],
        &["\n", "\t", "\r", "\u{1}", "\u{b}"],
        &["0", "1", "-1", "00"],
    ];
    let k = 2 + rng.below(2);
    let mut chosen: Vec<usize> = vec![];
    while chosen.len() < k {
        let c = rng.below(CLASSES.len());
        if !chosen.contains(&c) {
            chosen.push(c);
        }
    }
    let n = 2 + rng.below(4);
    let mut s = String::new();
    for _ in 0..n {
        let class = CLASSES[*rng.pick(&chosen)];
        s.push_str(*rng.pick(class));
    }
    s
}
