//! argv: <workload seed> [regex]. 2-3 threads share one Arc<JpQuery> per query and one Arc<Value>;
//! each makes 2-4 evaluations through the four entry points; every result must equal the one the
//! main thread computed before the threads started. Miri's own seed decides the interleaving.
use jsonpath_rust::parser::model::JpQuery;
use jsonpath_rust::parser::parse_json_path;
use jsonpath_rust::query::js_path_process;
use jsonpath_rust::query::queryable::Queryable;
use jsonpath_rust::JsonPath;
use serde_json::{json, Value};
use std::sync::Arc;

fn splitmix(x: &mut u64) -> u64 {
    *x = x.wrapping_add(0x9E37_79B9_7F4A_7C15);
    let mut z = *x;
    z = (z ^ (z >> 30)).wrapping_mul(0xBF58_476D_1CE4_E5B9);
    z = (z ^ (z >> 27)).wrapping_mul(0x94D0_49BB_1331_11EB);
    z ^ (z >> 31)
}

fn canon(doc: &Value, kind: u64, q: &str, pq: &JpQuery) -> String {
    match kind % 4 {
        0 => match doc.query_with_path(q) {
            Ok(r) => r.into_iter().map(|x| format!("{}={}", x.clone().path(), x.val())).collect::<Vec<_>>().join(";"),
            Err(_) => "Err".into(),
        },
        1 => match doc.query_only_path(q) {
            Ok(r) => r.join(";"),
            Err(_) => "Err".into(),
        },
        2 => match doc.query(q) {
            Ok(r) => r.into_iter().map(|x| x.to_string()).collect::<Vec<_>>().join(";"),
            Err(_) => "Err".into(),
        },
        _ => match js_path_process(pq, doc) {
            Ok(r) => r.into_iter().map(|x| format!("{}={}", x.clone().path(), x.val())).collect::<Vec<_>>().join(";"),
            Err(_) => "Err".into(),
        },
    }
}

fn main() {
    let args: Vec<String> = std::env::args().collect();
    let mut seed: u64 = args.get(1).and_then(|s| s.parse().ok()).unwrap_or(1);
    let with_regex = args.get(2).map(|s| s == "regex").unwrap_or(false);
    let docs = [
        json!({"a": [1, 2, {"b": "x", "c": [true, null]}], "b": {"a": 1.5, "list": ["a", "b"]}, "lim": 1}),
        json!([{"a": 1, "b": "ab"}, {"a": 2}, {"a": 1.0, "b": "xay"}, [1, [2, [3]]]]),
        json!({"names": ["d", "a", "c", "b", "z", "k", "e", "aa", "ab"], "items": [{"b": "a"}, {"b": "q"}, {"b": "ab"}], "lim": 0, "long": [0, 1, 2, 3, 4, 5, 6, 7, 8, 9]}),
    ];
    let plain = ["$..a", "$.a[?@.b == 'x'].c[*]", "$[?@.a >= 1].b", "$..[?@ > $.lim]", "$[0,2]['a','b']", "$..*", "$.b.list[::-1]", "$[?count(@.*) > 1]", "$[?length(@.b) == 2]", "$.a[-1].c[?@ == null]", "$.items[?in(@.b, $.names)]", "$.items[?nin(@.b, $.names)].b", "$.long[-1]", "$.long[?@ > $.lim]", "$..[?subset_of(@, $.names)]"];
    // a long query text next to short ones: parser state that is process-wide (limits, interning) is
    // written by one thread's parse and read by another's
    let long_union = format!("$.long[{}]", (0..30).map(|i| (i % 10).to_string()).collect::<Vec<_>>().join(","));
    let regex = ["$..[?match(@, 'a.*')]", "$..[?search(@.b, 'a')]"];
    let doc = Arc::new(docs[(splitmix(&mut seed) % 3) as usize].clone());
    let n_q = 2;
    let mut qs: Vec<(String, Arc<JpQuery>)> = vec![];
    for i in 0..n_q {
        let q: String = if with_regex && i == 0 {
            regex[(splitmix(&mut seed) % 2) as usize].to_string()
        } else if i == 1 && splitmix(&mut seed) % 8 == 0 {
            long_union.clone()
        } else {
            plain[(splitmix(&mut seed) % plain.len() as u64) as usize].to_string()
        };
        qs.push((q.clone(), Arc::new(parse_json_path(&q).expect("valid query"))));
    }
    let before = doc.to_string();
    // expectations, single-threaded, before any sharing
    let mut expected = vec![];
    for (q, pq) in &qs {
        let mut per = vec![];
        for k in 0..4u64 {
            per.push(canon(&doc, k, q, pq));
        }
        expected.push(per);
    }
    let expected = Arc::new(expected);
    // reference(): every thread resolves its own paths (all paths of the document, rotated per thread)
    let all_paths: Vec<String> = doc.query_only_path("$.*").unwrap_or_default().into_iter().take(4).collect();
    let ref_expected: Vec<String> = all_paths.iter().map(|p| doc.reference(p.clone()).map(|v| v.to_string()).unwrap_or("None".into())).collect();
    let all_paths = Arc::new(all_paths);
    let ref_expected = Arc::new(ref_expected);
    let n_threads = 2 + (splitmix(&mut seed) % 2) as usize;
    let mut hs = vec![];
    for t in 0..n_threads {
        let doc = doc.clone();
        let qs = qs.clone();
        let expected = expected.clone();
        let mut s = seed ^ (t as u64 + 1).wrapping_mul(0x9E37);
        let n_ops = if with_regex { 1 } else { 2 + (splitmix(&mut s) % 3) as usize };
        let all_paths = all_paths.clone();
        let ref_expected = ref_expected.clone();
        hs.push(std::thread::spawn(move || {
            if !with_regex && !all_paths.is_empty() {
                for r in 0..2 {
                    let i = (t + r) % all_paths.len();
                    let got = doc.reference(all_paths[i].clone()).map(|v| v.to_string()).unwrap_or("None".into());
                    if got != ref_expected[i] {
                        eprintln!("MISMATCH thread={} reference({}) expected={} got={}", t, all_paths[i], ref_expected[i], got);
                        std::process::exit(3);
                    }
                }
            }
            for _ in 0..n_ops {
                let qi = (splitmix(&mut s) % qs.len() as u64) as usize;
                let k = splitmix(&mut s) % 4;
                let got = canon(&doc, k, &qs[qi].0, &qs[qi].1);
                if got != expected[qi][k as usize] {
                    eprintln!("MISMATCH thread={} query={} entry={} expected={} got={}", t, qs[qi].0, k, expected[qi][k as usize], got);
                    std::process::exit(3);
                }
            }
        }));
    }
    for h in hs {
        h.join().expect("thread");
    }
    if doc.to_string() != before {
        eprintln!("MISMATCH the document changed");
        std::process::exit(3);
    }
    println!("OK");
}
